package main

import (
	"fmt"
	"go/token"
	"go/types"
	"strings"

	"golang.org/x/tools/go/ssa"
)

func init() {
	register(&PropSpec{
		ID: "C15",
		Explanation: "Static decision of the structural conditions for 'hostile tracker replies are harmless, announces are disciplined': " +
			"(R1) in every function that takes the tracker's busy flag (tryLock), every path on which it was taken reaches unlock (a registered defer or an explicit call) before returning — implementations of Tracker.Announce are enumerated from the interface's method set; " +
			"(R2) every network-reaching call of an Announce implementation is dominated by ready()==true evaluated while locked and by the store of the attempt time; ready() clamps the interval to at least five minutes (default thirty); the torrent starts at most one announce per round and only for a Ready tracker; " +
			"(R3) in the reply-handling functions a failure is never signalled with a nil error, and every assertion `if err == nil { panic }` is dead code (the error is provably non-nil on every edge that reaches it); " +
			"(R4) every slice/index expression on reply bytes is implied in-bounds by the loop bound and the length/congruence guards (stride lemmas), or by the buffer's construction; (R5) the learn-peer callback is called only with addresses built by netip.AddrPortFrom and never on the failure-reason path.",
		Rules:       []string{"R1 busy flag always released (E-must with result excuse)", "R2 no contact before ready; interval clamp (E-dom)", "R3 failure never a nil error / reachable panic (E-nil incl. loop-exit phis)", "R4 reply slicing guarded (E-int, stride lemmas)", "R5 learnt peers come from the reply"},
		NotDecided:  []string{"interval arithmetic over sequences of attempts with a moving clock", "races on base.interval/err between the two per-family goroutines", "third-party bencode decoding of the HTTP reply"},
		Assumptions: []string{"context errors are sticky", "atomic CAS semantics of tryLock/unlock"},
		Run:         runC15,
	})
}

func runC15(r *Report) {
	p := r.P
	tryLock := p.Func("tracker", "base.tryLock")
	unlock := p.Func("tracker", "base.unlock")
	ready := p.Func("tracker", "base.ready")
	if !r.Anchor("R1", "tracker.(*base).tryLock", tryLock != nil) || !r.Anchor("R1", "tracker.(*base).unlock", unlock != nil) || !r.Anchor("R2", "tracker.(*base).ready", ready != nil) {
		return
	}
	// ---- R1
	calls, esc := p.callSitesOf(tryLock)
	for _, e := range esc {
		r.Fail("R1", "tryLock-escapes", e.Pos(), "tryLock is used as a function value")
	}
	// releasers: unlock, and private wrappers of package tracker that call it on every path (release())
	releasers := map[*ssa.Function]bool{unlock: true}
	for _, f := range p.SrcFuncs() {
		if relPkg(f) != "tracker" || f.Parent() != nil || f == unlock || f.Blocks == nil {
			continue
		}
		callsUnlock := func(in ssa.Instruction) bool {
			c, ok := in.(*ssa.Call)
			return ok && c.Call.StaticCallee() == unlock
		}
		if anyInstr(f, callsUnlock) == nil || f.Signature.Results().Len() != 0 {
			continue
		}
		isRet := func(in ssa.Instruction) bool { _, ok := in.(*ssa.Return); return ok }
		if _, reached := pathsMissingAt(f.Blocks[0], 0, -1, isRet, callsUnlock, nil, nil); reached == 0 {
			releasers[f] = true
		}
	}
	isRelease := func(in ssa.Instruction) bool {
		switch x := in.(type) {
		case *ssa.Defer:
			return releasers[x.Call.StaticCallee()]
		case *ssa.Call:
			return releasers[x.Call.StaticCallee()]
		}
		return false
	}
	// acquirers: tryLock, and private wrappers that return true exactly when they return with the flag held
	// (func (t *base) acquire() bool { if !t.tryLock() { return false }; if !t.ready() { t.unlock(); return false }; return true })
	acquirers := map[*ssa.Function]bool{tryLock: true}
	acquirersErr := map[*ssa.Function]bool{}
	heldGuard := func(g Guard) bool {
		if gc, okc := g.Cond.(*ssa.Call); okc && acquirers[gc.Call.StaticCallee()] && g.Pol {
			return true
		}
		if x, isNil, okn := nilFact(g); okn && isNil {
			if gc, okc := x.(*ssa.Call); okc && acquirersErr[gc.Call.StaticCallee()] {
				return true
			}
		}
		return false
	}
	for i := 0; i < len(calls); i++ {
		cs := calls[i]
		c, ok := cs.(*ssa.Call)
		if !ok {
			continue
		}
		f := cs.Parent()
		r.Fn(f)
		key := fmt.Sprintf("%s/tryLock-then-unlock", fname(f))
		excuses := []excuse{{c, false}}
		if acquirersErr[c.Call.StaticCallee()] {
			// err := t.acquire(); if err != nil { return err }: the edge on which the error is not nil took nothing
			excuses = nil
			for _, ref := range *c.Referrers() {
				if bo, isB := ref.(*ssa.BinOp); isB && (bo.Op == token.NEQ || bo.Op == token.EQL) && (isNilConst(bo.Y) || isNilConst(bo.X)) && excuses == nil {
					excuses = []excuse{{bo, bo.Op == token.NEQ}}
				}
			}
		}
		exits := unreportedExits(mustCfg{c, isRelease, excuses})
		if len(exits) > 0 && relPkg(f) == "tracker" && f.Parent() == nil && f.Signature.Results().Len() == 1 && isErrorType(f.Signature.Results().At(0).Type()) {
			// func (t *base) acquire() error: nil exactly when it returns with the flag held
			if obj, isF := f.Object().(*types.Func); isF && !obj.Exported() {
				allNil := true
				for _, e := range exits {
					ret, isRet := e.(*ssa.Return)
					if !isRet || !isNilConst(ret.Results[0]) {
						allNil = false
					}
				}
				if allNil {
					for _, ret := range returnsOf(f) {
						rv := ret.Results[0]
						if !isNilConst(rv) {
							// a failure: a package-level error value or a fresh error
							if ld, isLd := rv.(*ssa.UnOp); isLd {
								if _, isG := ld.X.(*ssa.Global); isG {
									continue
								}
							}
							if cc, isC := rv.(*ssa.Call); isC && (isStdCall(cc, "errors", "", "New") || isStdCall(cc, "fmt", "", "Errorf")) {
								continue
							}
							allNil = false
							continue
						}
						held := false
						for _, g := range guardsOf(ret.Block()) {
							g = g.norm()
							if gc, okc := g.Cond.(*ssa.Call); okc && acquirers[gc.Call.StaticCallee()] && g.Pol {
								held = true
							}
						}
						if !held {
							allNil = false
						}
					}
				}
				if allNil && !acquirersErr[f] {
					acquirersErr[f] = true
					r.Ok("R1", key, c.Pos(), "the wrapper returns a nil error exactly when it returns with the busy flag held; its callers are checked in its place")
					more, esc2 := p.callSitesOf(f)
					for _, e := range esc2 {
						r.Fail("R1", "tryLock-escapes", e.Pos(), "%s is used as a function value", fname(f))
					}
					calls = append(calls, more...)
					continue
				}
			}
		}
		if len(exits) > 0 && relPkg(f) == "tracker" && f.Parent() == nil && f.Signature.Results().Len() == 1 && isBoolType(f.Signature.Results().At(0).Type()) {
			if obj, isF := f.Object().(*types.Func); isF && !obj.Exported() {
				allTrue := true
				for _, e := range exits {
					ret, isRet := e.(*ssa.Return)
					if !isRet {
						allTrue = false
						break
					}
					if b, isb := constBool(ret.Results[0]); !isb || !b {
						allTrue = false
					}
				}
				// and no return of true without the flag
				if allTrue {
					for _, ret := range returnsOf(f) {
						if b, isb := constBool(ret.Results[0]); isb && !b {
							continue
						}
						held := false
						for _, g := range guardsOf(ret.Block()) {
							g = g.norm()
							if gc, okc := g.Cond.(*ssa.Call); okc && acquirers[gc.Call.StaticCallee()] && g.Pol {
								held = true
							}
						}
						if !held {
							allTrue = false
						}
					}
				}
				if allTrue && !acquirers[f] {
					acquirers[f] = true
					r.Ok("R1", key, c.Pos(), "the wrapper returns true exactly when it returns with the busy flag held; its callers are checked in its place")
					more, esc2 := p.callSitesOf(f)
					for _, e := range esc2 {
						r.Fail("R1", "tryLock-escapes", e.Pos(), "%s is used as a function value", fname(f))
					}
					calls = append(calls, more...)
					continue
				}
			}
		}
		if len(exits) == 0 {
			r.Ok("R1", key, c.Pos(), "every path on which the busy flag was taken releases it (deferred or explicit unlock)")
		} else {
			var ls []string
			for _, e := range exits {
				ls = append(ls, p.pos(e.Pos()))
			}
			r.Fail("R1", key, c.Pos(), "a path on which tryLock succeeded returns (at %s) without unlock and before a deferred unlock is registered: the tracker stays Busy forever and is never announced to again", strings.Join(dedupe(ls), ", "))
		}
	}
	r.Sentinel("R1", len(calls), 3)
	// … and the flag is given up only by whoever holds it: every unlock (called or deferred) sits on the edge on which
	// an acquisition succeeded. `ok := tryLock(); defer unlock(); if !ok { return }` releases the flag of the announce
	// that is in flight — the state reads idle while it runs, and its own unlock then panics.
	{
		ucalls, _ := p.callSitesOf(unlock)
		nU := 0
		for _, cs := range ucalls {
			in, okI := cs.(ssa.Instruction)
			if !okI {
				continue
			}
			f := cs.Parent()
			if f.Parent() != nil {
				// a deferred closure: judged at the defer that registers it
				continue
			}
			nU++
			r.Fn(f)
			held := p.factHolds(in, heldGuard, 0)
			r.Check(held, "R1", fname(f)+"/unlock-only-when-held", cs.Pos(), "the unlock is reached (or registered) only on the edge on which the flag was taken",
				"unlock is called or deferred on a path on which tryLock may have failed: an announce that was refused because another one is in flight releases that one's flag — GetState reports the tracker idle while it is being contacted, a second contact can start, and the rightful owner's unlock panics (\"unlocking unlocked torrent\") in its goroutine")
		}
		// defers of closures that unlock
		for _, f := range p.SrcFuncs() {
			if relPkg(f) != "tracker" {
				continue
			}
			allInstrs(f, func(in ssa.Instruction) {
				d, okD := in.(*ssa.Defer)
				if !okD {
					return
				}
				df := deferredFunc(d)
				if df == nil || df == unlock || anyInstr(df, func(i2 ssa.Instruction) bool {
					c2, okc := i2.(*ssa.Call)
					return okc && c2.Call.StaticCallee() == unlock
				}) == nil {
					return
				}
				nU++
				held := p.factHolds(in, heldGuard, 0)
				r.Check(held, "R1", fname(f)+"/unlock-only-when-held", d.Pos(), "the deferred unlock is registered only on the edge on which the flag was taken", "a closure that unlocks is deferred on a path on which tryLock may have failed")
			})
		}
		r.Sentinel("R1.unlocks", nU, 3)
	}
	// implementations of Tracker.Announce (enumerated from the interface) that reach the network take the lock
	iface := p.Named("tracker", "Tracker")
	var impls []*ssa.Function
	if r.Anchor("R1", "tracker.Tracker", iface != nil) {
		it := iface.Underlying().(*types.Interface)
		for _, f := range p.SrcFuncs() {
			if relPkg(f) != "tracker" || f.Name() != "Announce" || f.Signature.Recv() == nil {
				continue
			}
			if types.Implements(f.Signature.Recv().Type(), it) || types.Implements(types.NewPointer(derefType(f.Signature.Recv().Type())), it) {
				impls = append(impls, f)
			}
		}
	}
	netFns := map[string]bool{"announceHTTP": true, "announceUDP": true}
	for _, f := range impls {
		r.Fn(f)
		// network-reaching calls: direct or inside go-closures
		type site struct {
			in ssa.Instruction // instruction in f (call, or the Go statement launching the closure)
		}
		var sites []ssa.Instruction
		allInstrs(f, func(in ssa.Instruction) {
			if cal := calleeOf(in); cal != nil && netFns[cal.Name()] {
				sites = append(sites, in)
			}
			if g, ok := in.(*ssa.Go); ok {
				if mc, ok := g.Call.Value.(*ssa.MakeClosure); ok {
					if fn, ok := mc.Fn.(*ssa.Function); ok && containsCall(fn, func(i ssa.Instruction) bool { cal := calleeOf(i); return cal != nil && netFns[cal.Name()] }) {
						sites = append(sites, in)
					}
				}
			}
		})
		if len(sites) == 0 {
			r.Info("R2", fname(f)+"/no-network", f.Pos(), "this Announce implementation does not reach the network")
			continue
		}
		for _, in := range sites {
			key := fmt.Sprintf("%s/contact-after-ready", fname(f))
			// dominated by ready() == true (in the function, or as the outcome of an acquiring wrapper)
			var rc *ssa.Call
			isReadyTrue := func(g Guard) bool {
				c, ok := g.Cond.(*ssa.Call)
				if ok && c.Call.StaticCallee() == ready && g.Pol {
					rc = c
					return true
				}
				return false
			}
			if !p.factHolds(in, isReadyTrue, 0) || rc == nil {
				r.Fail("R2", key, in.Pos(), "the tracker is contacted on a path not dominated by ready() == true: it can be contacted again before max(5 min, announced interval) has elapsed")
				continue
			}
			// ready() evaluated while locked: dominated by tryLock()==true
			locked := false
			for _, g := range guardsOf(rc.Block()) {
				g = g.norm()
				if c, ok := g.Cond.(*ssa.Call); ok && c.Call.StaticCallee() == tryLock && g.Pol {
					locked = true
				}
			}
			if !locked {
				r.Fail("R2", key, rc.Pos(), "ready() is not evaluated under the busy flag: two concurrent announces can both see the tracker ready")
				continue
			}
			// attempt time stored before the contact
			stamped := false
			allInstrs(f, func(i2 ssa.Instruction) {
				if st, ok := i2.(*ssa.Store); ok {
					if fa, ok := st.Addr.(*ssa.FieldAddr); ok && fieldVar(fa) != nil && fieldVar(fa).Name() == "time" && instrDominates(st, in) {
						if c, ok := st.Val.(*ssa.Call); ok && isStdCall(c, "time", "", "Now") {
							stamped = true
						}
					}
				}
			})
			r.Check(stamped, "R2", key, in.Pos(), "contact happens locked, ready, after the attempt time was recorded", "the attempt time (tracker.time = time.Now()) is not recorded before the tracker is contacted: a failed attempt is retried at once")
		}
	}
	// ready() waits for max(5 min, announced interval): the duration added to the last attempt time is at least five
	// minutes on every path (interval analysis, through helpers), and the announced interval flows into it
	r.Fn(ready)
	const minute = int64(60e9)
	intervalF := fieldLoadOf("base", "interval")
	nAdd := 0
	for _, f := range localCallees(p, ready, []string{"tracker"}) {
		allInstrs(f, func(in ssa.Instruction) {
			c, ok := in.(*ssa.Call)
			if !ok || !isStdCall(c, "time", "Time", "Add") {
				return
			}
			nAdd++
			iv := (&IntEnv{}).At(c.Call.Args[1], c.Block())
			r.Check(iv.Lo >= 5*minute, "R2", "ready/min-5-minutes", c.Pos(), "the delay added to the last attempt time is at least five minutes on every path ("+iv.String()+" ns)",
				"the delay added to the last attempt time is only known to be in "+iv.String()+" ns: the five-minute minimum between two contacts of a tracker is not enforced on every path")
			var flows func(v ssa.Value, d int) bool
			flows = func(v ssa.Value, d int) bool {
				if d > 4 {
					return false
				}
				if mentions(v, intervalF, 0) {
					return true
				}
				found := false
				var walk func(x ssa.Value, dd int)
				walk = func(x ssa.Value, dd int) {
					if dd > 6 || found || x == nil {
						return
					}
					switch y := x.(type) {
					case *ssa.Call:
						if h := y.Call.StaticCallee(); h != nil && h.Blocks != nil && relPkg(h) == "tracker" && !y.Call.IsInvoke() {
							for _, ret := range returnsOf(h) {
								for _, rv := range retResults(ret) {
									if flows(rv, d+1) {
										found = true
									}
								}
							}
						}
					case *ssa.Phi:
						for _, e := range y.Edges {
							walk(e, dd+1)
						}
					case *ssa.Convert:
						walk(y.X, dd+1)
					case *ssa.BinOp:
						walk(y.X, dd+1)
						walk(y.Y, dd+1)
					}
				}
				walk(v, 0)
				return found
			}
			r.Check(flows(c.Call.Args[1], 0), "R2", "ready/announced-interval-used", c.Pos(), "the tracker's announced interval flows into the delay", "the delay added to the last attempt time does not depend on the tracker's announced interval: a tracker that asks for a longer interval is contacted too early")
		})
	}
	r.Sentinel("R2.ready", nAdd, 1)
	// the announced interval is only ever raised by a fallback: where updateInterval (or any code of package tracker)
	// stores a constant into base.interval, the value stored before is known not to exceed it — otherwise a tracker
	// that announced two hours (or BEP 31 "retry in never") is contacted again after the fallback's fifteen minutes
	// as soon as one announce fails.
	if ivF := p.Field("tracker", "base", "interval"); r.Anchor("R2", "tracker.base.interval", ivF != nil) {
		nC := 0
		tt := &Taint{stores: map[*ssa.Function]map[*types.Var]bool{}}
		for _, f := range p.SrcFuncs() {
			if relPkg(f) != "tracker" {
				continue
			}
			allInstrs(f, func(in ssa.Instruction) {
				st, ok := isStoreToField(in, ivF)
				if !ok {
					return
				}
				k, isConst := constInt(st.Val)
				if _, isC := st.Val.(*ssa.Const); !isC || !isConst {
					return
				}
				nC++
				r.Fn(f)
				// what is known about the stored value here: a guard on a load of the same field
				hi := int64(posInf)
				for _, g := range guardsOf(st.Block()) {
					op, x, y, okc := cmpFact(g)
					if !okc {
						continue
					}
					fx, _ := loadedField(x)
					fy, _ := loadedField(y)
					_ = tt
					if fx == ivF {
						if c, okk := constInt(y); okk {
							switch op {
							case token.LSS:
								hi = min(hi, c-1)
							case token.LEQ, token.EQL:
								hi = min(hi, c)
							}
						}
					} else if fy == ivF {
						if c, okk := constInt(x); okk {
							switch op {
							case token.GTR:
								hi = min(hi, c-1)
							case token.GEQ, token.EQL:
								hi = min(hi, c)
							}
						}
					}
				}
				r.Check(hi <= k, "R2", fname(f)+"/interval-fallback-never-lowers", st.Pos(), "a constant replaces the stored interval only where the stored one is known not to be larger",
					fmt.Sprintf("%s stores the constant %d ns into the tracker's interval on a path where the interval stored before is not known to be at most that: an announced interval of two hours (or `retry in never`) is replaced by the fallback after one failed or interval-less reply, and the tracker is contacted again too early", fname(f), k))
			})
		}
		r.Sentinel("R2.fallback", nC, 1)
	}
	// torrent side: one ready tracker per round
	if ta := p.Func("tor", "trackerAnnounce"); r.Anchor("R2", "tor.trackerAnnounce", ta != nil) {
		r.Fn(ta)
		n := 0
		allInstrs(ta, func(in ssa.Instruction) {
			g, ok := in.(*ssa.Go)
			if !ok {
				return
			}
			n++
			// a dominating `state == Ready`, possibly as the outcome of a helper that picks the tracker
			// (tr := readyTracker(tier); if tr == nil { continue })
			readyG := p.factHolds(g, func(gd Guard) bool {
				op, x, y, ok := cmpFact(gd)
				if !ok || op != token.EQL {
					return false
				}
				if k, okk := constInt(y); okk && k == 1 && !isNilConst(x) { // tracker.Ready
					return typeShort(x.Type()) == "tracker.State" || isInteger(x.Type())
				}
				return false
			}, 0)
			r.Check(readyG, "R2", "trackerAnnounce/only-ready", g.Pos(), "an announce is started only for a tracker in state Ready", "an announce goroutine is started for a tracker whose state is not known to be Ready")
			// followed by return: no path from the go statement back to another go statement
			again := pathHasBefore(g, func(i ssa.Instruction) bool { _, isr := i.(*ssa.Return); return isr }, func(i ssa.Instruction) bool { _, isg := i.(*ssa.Go); return isg })
			r.Check(!again, "R2", "trackerAnnounce/one-per-round", g.Pos(), "at most one tracker is announced to per round", "after starting an announce the round continues and can start another one")
		})
		r.Sentinel("R2.tor", n, 1)
	}
	c15R3(r)
	c15R4(r)
	// a reply is decoded from the bytes that were read, not from what a short read left in the buffer
	readCountsUsed(r, "R4", map[string]bool{"tracker": true}, 1)
	readFullChecked(r, "R4", map[string]bool{"tracker": true}, 1)
	c15R5(r)
	c15Bounded(r, "R1")
	atomicWrites(r, "R1", objNamed("tracker", "locked"), 1)
	c15TryLockIsCAS(r, tryLock)
	c15Units(r, "R2")
}

func c15R3(r *Report) {
	p := r.P
	ne := newNilEnv(p)
	n := 0
	for _, name := range []string{"udpRequestReply", "announceUDP", "announceHTTP"} {
		f := p.Func("tracker", name)
		if !r.Anchor("R3", "tracker."+name, f != nil) {
			continue
		}
		r.Fn(f)
		for _, ret := range returnsOf(f) {
			if len(ret.Results) != 2 {
				continue
			}
			rr := retResults(ret)
			v, e := rr[0], rr[1]
			if isNilConst(e) {
				continue // explicit success
			}
			zero := isNilConst(v)
			if c, ok := constInt(v); ok && c == 0 {
				if _, isC := v.(*ssa.Const); isC {
					zero = true
				}
			}
			if !zero {
				continue // (value, err) at the end: success or failure carried by err itself
			}
			n++
			key := fmt.Sprintf("%s/return(zero,%s)", name, descVal(e))
			en := ne.At(e, ret.Block())
			if en == NonNil {
				r.Ok("R3", key, ret.Pos(), "failure return with a provably non-nil error")
			} else {
				r.Fail("R3", key, ret.Pos(), "returns the zero value with an error that is %s on this path: the caller takes a failure for success", en)
			}
		}
		// assertions `if err == nil { panic }` must be dead
		allInstrs(f, func(in ssa.Instruction) {
			pi, ok := in.(*ssa.Panic)
			if !ok || !pi.Pos().IsValid() {
				return
			}
			for _, g := range guardsOf(pi.Block()) {
				// only the test that immediately controls the panic
				if len(pi.Block().Preds) != 1 || g.If == nil || g.If.Block() != pi.Block().Preds[0] {
					continue
				}
				g = g.norm()
				bo, ok := g.Cond.(*ssa.BinOp)
				if !ok || !isNilConst(bo.Y) || !isErrorType(bo.X.Type()) {
					continue
				}
				if !((bo.Op == token.EQL && g.Pol) || (bo.Op == token.NEQ && !g.Pol)) {
					continue
				}
				n++
				key := fmt.Sprintf("%s/panic-if-err-nil-is-dead", name)
				en := ne.At(bo.X, g.If.Block())
				if en == NonNil {
					r.Ok("R3", key, pi.Pos(), "the assertion is dead code: the error is non-nil on every edge reaching it")
				} else {
					r.Fail("R3", key, pi.Pos(), "the assertion `if err == nil { panic }` is reachable: an edge (e.g. a `continue` taken without setting err) carries a nil error to it, so a remote tracker — or anyone spoofing its address — can crash the process")
				}
			}
		})
	}
	r.Sentinel("R3", n, 30)
}

func c15R4(r *Report) {
	p := r.P
	n := 0
	for _, name := range []string{"announceHTTP", "announceUDP", "udpRequestReply"} {
		f := p.Func("tracker", name)
		if f == nil {
			continue
		}
		n += checkStrided(r, "R4", f)
	}
	r.Sentinel("R4", n, 8)
}

func c15R5(r *Report) {
	p := r.P
	n := 0
	for _, name := range []string{"announceHTTP", "announceUDP"} {
		f := p.Func("tracker", name)
		if f == nil {
			continue
		}
		var cb *ssa.Parameter
		for _, pa := range f.Params {
			if _, ok := pa.Type().Underlying().(*types.Signature); ok {
				cb = pa
			}
		}
		if cb == nil {
			r.Undecided("R5", name+"/callback", f.Pos(), "no callback parameter found")
			continue
		}
		allInstrs(f, func(in ssa.Instruction) {
			c, ok := in.(*ssa.Call)
			if !ok || c.Call.Value != ssa.Value(cb) {
				return
			}
			n++
			key := fmt.Sprintf("%s/f(AddrPortFrom(…))", name)
			arg, ok := c.Call.Args[0].(*ssa.Call)
			good := ok && isStdCall(arg, "net/netip", "", "AddrPortFrom")
			if good {
				// the address comes from AddrFromSlice(reply bytes) or ParseAddr(reply string), tested ok
				ipSrc, okx := arg.Call.Args[0].(*ssa.Extract)
				if okx {
					if sc, ok := ipSrc.Tuple.(*ssa.Call); ok {
						good = isStdCall(sc, "net/netip", "", "AddrFromSlice") || isStdCall(sc, "net/netip", "", "ParseAddr")
					}
				}
			}
			r.Check(good, "R5", key, c.Pos(), "the learnt address is built from bytes of the reply", "the learn-peer callback is called with something other than an address parsed from the reply")
			if name == "announceHTTP" {
				// not on the failure-reason path: dominated by FailureReason == ""
				notFail := false
				for _, g := range guardsOf(c.Block()) {
					g = g.norm()
					bo, ok := g.Cond.(*ssa.BinOp)
					if !ok {
						continue
					}
					if s, oks := constString(bo.Y); oks && s == "" {
						if fv, _ := loadedField(bo.X); fv != nil && fv.Name() == "FailureReason" {
							if (bo.Op == token.NEQ && !g.Pol) || (bo.Op == token.EQL && g.Pol) {
								notFail = true
							}
						}
					}
				}
				r.Check(notFail, "R5", name+"/no-peers-from-failure-reply", c.Pos(), "peers are learnt only from replies without a failure reason", "peers are taken from a reply that carries a failure reason")
			}
		})
	}
	r.Sentinel("R5", n, 4)
}

// ---------- the exchange with the tracker is bounded in time ----------

// positiveDur: v is a duration that is positive on every path: a positive constant, sums, products and shifts of
// such, and loop-carried values all of whose inputs are (timeout := 5s; …; timeout *= 2).
func positiveDur(v ssa.Value, onPath map[ssa.Value]bool, d int) bool {
	if d > 12 || v == nil {
		return false
	}
	if onPath[v] {
		return true // loop-carried: decided by the other inputs
	}
	switch x := v.(type) {
	case *ssa.Const:
		k, ok := constInt(x)
		return ok && k > 0
	case *ssa.Convert:
		return positiveDur(x.X, onPath, d+1)
	case *ssa.ChangeType:
		return positiveDur(x.X, onPath, d+1)
	case *ssa.BinOp:
		switch x.Op {
		case token.MUL, token.ADD:
			return positiveDur(x.X, onPath, d+1) && positiveDur(x.Y, onPath, d+1)
		case token.SHL:
			return positiveDur(x.X, onPath, d+1)
		}
	case *ssa.Phi:
		onPath[v] = true
		defer delete(onPath, v)
		for _, e := range x.Edges {
			if !positiveDur(e, onPath, d+1) {
				return false
			}
		}
		return true
	}
	return false
}

// c15Bounded: Announce holds the tracker's busy flag for as long as the exchange lasts, and the context it is given
// is the torrent's, which lives as long as the torrent.  Unless the exchange itself is bounded — an overall timeout
// on the HTTP client (or a deadline on the request's context), a deadline on the UDP socket before each read and
// write — a tracker that stops answering in mid-reply keeps the flag for ever and is never announced to again.
func c15Bounded(r *Report, rule string) {
	p := r.P
	clientT := func(t types.Type) bool { return typeIs(derefType(t), "net/http", "Client") }
	// every http.Client built in h (and its closures) gets a positive overall Timeout
	clientsBounded := func(h *ssa.Function) (bool, token.Pos, string) {
		// h, its closures, and the functions of its package it calls (newClient(transport))
		var fns []*ssa.Function
		seenF := map[*ssa.Function]bool{}
		var collect func(g *ssa.Function, d int)
		collect = func(g *ssa.Function, d int) {
			if seenF[g] || d > 3 || g.Blocks == nil {
				return
			}
			seenF[g] = true
			fns = append(fns, g)
			for _, a := range g.AnonFuncs {
				collect(a, d)
			}
			allInstrs(g, func(in ssa.Instruction) {
				if c, ok := in.(*ssa.Call); ok && !c.Call.IsInvoke() {
					if cal := c.Call.StaticCallee(); cal != nil && funcPkgPath(cal) == funcPkgPath(h) {
						collect(cal, d+1)
					}
				}
			})
		}
		collect(h, 0)
		n := 0
		for _, g := range fns {
			var bad ssa.Instruction
			why := ""
			allInstrs(g, func(in ssa.Instruction) {
				al, ok := in.(*ssa.Alloc)
				if !ok || bad != nil {
					return
				}
				if nt, isN := al.Type().Underlying().(*types.Pointer).Elem().(*types.Named); !isN || nt.Obj().Name() != "Client" || nt.Obj().Pkg() == nil || nt.Obj().Pkg().Path() != "net/http" {
					return
				}
				n++
				stores := 0
				for _, ref := range *al.Referrers() {
					fa, ok := ref.(*ssa.FieldAddr)
					if !ok || fieldVar(fa) == nil || fieldVar(fa).Name() != "Timeout" {
						continue
					}
					for _, r2 := range *fa.Referrers() {
						if st, ok := r2.(*ssa.Store); ok && st.Addr == ssa.Value(fa) {
							stores++
							if !positiveDur(st.Val, map[ssa.Value]bool{}, 0) {
								bad, why = st, "is given a Timeout that is zero (no limit) on some path"
							}
						}
					}
				}
				if stores == 0 && bad == nil {
					bad, why = al, "is given no Timeout"
				}
			})
			if bad != nil {
				return false, bad.Pos(), why
			}
		}
		if n == 0 {
			return false, h.Pos(), "is not built there"
		}
		return true, token.NoPos, ""
	}
	ctxBounded := func(v ssa.Value) bool {
		// req.WithContext(ctx2) / NewRequestWithContext(ctx2, …) with ctx2 from context.WithTimeout/WithDeadline
		var find func(v ssa.Value, d int) bool
		find = func(v ssa.Value, d int) bool {
			if d > 5 || v == nil {
				return false
			}
			switch x := v.(type) {
			case *ssa.Extract:
				if c, ok := x.Tuple.(*ssa.Call); ok {
					if isStdCall(c, "context", "", "WithTimeout") || isStdCall(c, "context", "", "WithDeadline") {
						return x.Index == 0
					}
					for _, a := range c.Call.Args {
						if find(a, d+1) {
							return true
						}
					}
				}
			case *ssa.Call:
				for _, a := range x.Call.Args {
					if find(a, d+1) {
						return true
					}
				}
			case *ssa.MakeInterface:
				return find(x.X, d+1)
			case *ssa.ChangeInterface:
				return find(x.X, d+1)
			}
			return false
		}
		return find(v, 0)
	}
	nHTTP, nUDP := 0, 0
	for _, f := range p.SrcFuncs() {
		if relPkg(f) != "tracker" {
			continue
		}
		allInstrs(f, func(in ssa.Instruction) {
			c, ok := in.(*ssa.Call)
			if !ok {
				return
			}
			// (a) HTTP
			if h := c.Call.StaticCallee(); h != nil && !c.Call.IsInvoke() && h.Pkg != nil && h.Pkg.Pkg.Path() == "net/http" && len(c.Call.Args) > 0 && clientT(c.Call.Args[0].Type()) &&
				(h.Name() == "Do" || h.Name() == "Get" || h.Name() == "Post" || h.Name() == "Head" || h.Name() == "PostForm") {
				nHTTP++
				r.Fn(f)
				good, msg := false, ""
				for _, a := range c.Call.Args[1:] {
					if ctxBounded(a) {
						good = true
					}
				}
				if !good {
					switch src := c.Call.Args[0].(type) {
					case *ssa.Call:
						if g := src.Call.StaticCallee(); g != nil && g.Blocks != nil && !src.Call.IsInvoke() && strings.HasPrefix(funcPkgPath(g), modPath) {
							ok2, pos, why := clientsBounded(g)
							good = ok2
							if !ok2 {
								msg = fmt.Sprintf("the client comes from %s, where an http.Client %s (%s)", fname(g), why, p.Fset.Position(pos))
							}
						} else {
							msg = "the client's origin is not a function of the module"
						}
					case *ssa.Alloc:
						ok2, _, why := clientsBounded(f)
						good = ok2
						msg = "the http.Client built here " + why
					default:
						msg = "the client's origin is not recognised (" + exprStr(c.Call.Args[0]) + ")"
					}
				}
				r.Check(good, rule, fname(f)+"/http-exchange-is-time-bounded", c.Pos(), "the HTTP announce is bounded by the client's overall timeout or a deadline on the request's context",
					"nothing bounds the HTTP exchange with the tracker: "+msg+"; a tracker that sends its headers and then stalls keeps Announce blocked in the body read, the busy flag is never released, and the tracker is skipped in every later round")
				return
			}
			// (b) UDP: reads and writes on the socket happen under a deadline
			if c.Call.IsInvoke() && (c.Call.Method.Name() == "Read" || c.Call.Method.Name() == "Write") && typeIs(c.Call.Value.Type(), "net", "Conn") {
				nUDP++
				r.Fn(f)
				good := false
				allInstrs(f, func(i2 ssa.Instruction) {
					c2, ok := i2.(*ssa.Call)
					if !ok || !c2.Call.IsInvoke() || c2.Call.Value != c.Call.Value || !instrDominates(c2, c) {
						return
					}
					nm := c2.Call.Method.Name()
					if nm != "SetDeadline" && !(nm == "SetReadDeadline" && c.Call.Method.Name() == "Read") && !(nm == "SetWriteDeadline" && c.Call.Method.Name() == "Write") {
						return
					}
					// time.Now().Add(positive)
					if add, ok := c2.Call.Args[0].(*ssa.Call); ok && isStdCall(add, "time", "Time", "Add") && len(add.Call.Args) == 2 {
						if now, ok := add.Call.Args[0].(*ssa.Call); ok && isStdCall(now, "time", "", "Now") && positiveDur(add.Call.Args[1], map[ssa.Value]bool{}, 0) {
							good = true
						}
					}
				})
				r.Check(good, rule, fmt.Sprintf("%s/conn.%s-under-a-deadline", fname(f), c.Call.Method.Name()), c.Pos(), "a deadline in the future is set on the socket before the operation, on every path",
					"the socket operation is not preceded on every path by SetDeadline(time.Now().Add(positive)): a tracker that does not answer keeps Announce blocked, and the busy flag held, for ever")
			}
		})
	}
	r.Sentinel(rule+".http-exchange", nHTTP, 1)
	r.Sentinel(rule+".udp-ops", nUDP, 2)
}

// c15TryLockIsCAS: the busy flag is taken by a compare-and-swap: tryLock answers true only as the outcome of
// CompareAndSwap(&locked, 0, 1).  A test followed by a store lets two announces that arrive together both proceed:
// both contact the tracker, and the second unlock panics ("unlocking unlocked torrent") or leaves the flag wrong.
func c15TryLockIsCAS(r *Report, tryLock *ssa.Function) {
	r.Fn(tryLock)
	isCAS := func(v ssa.Value) bool {
		c, ok := v.(*ssa.Call)
		if !ok {
			return false
		}
		h := c.Call.StaticCallee()
		if h == nil || h.Pkg == nil || h.Pkg.Pkg.Path() != "sync/atomic" || !strings.HasPrefix(h.Name(), "CompareAndSwap") || len(c.Call.Args) != 3 {
			return false
		}
		fa, okf := c.Call.Args[0].(*ssa.FieldAddr)
		if !okf || fieldVar(fa) == nil || fieldVar(fa).Name() != "locked" {
			return false
		}
		o, ok1 := constInt(c.Call.Args[1])
		n, ok2 := constInt(c.Call.Args[2])
		return ok1 && ok2 && o == 0 && n != 0
	}
	var okVal func(v ssa.Value, b *ssa.BasicBlock, d int) bool
	okVal = func(v ssa.Value, b *ssa.BasicBlock, d int) bool {
		if d > 4 {
			return false
		}
		if bv, isb := constBool(v); isb {
			if !bv {
				return true
			}
			for _, g := range guardsOf(b) {
				g = g.norm()
				if g.Pol && isCAS(g.Cond) {
					return true
				}
			}
			return false
		}
		if isCAS(v) {
			return true
		}
		if ph, ok := v.(*ssa.Phi); ok {
			for i, e := range ph.Edges {
				if !okVal(e, ph.Block().Preds[i], d+1) {
					return false
				}
			}
			return true
		}
		return false
	}
	good := true
	var at token.Pos = tryLock.Pos()
	for _, ret := range returnsOf(tryLock) {
		res := retResults(ret)
		if len(res) != 1 || !okVal(res[0], ret.Block(), 0) {
			good = false
			at = ret.Pos()
		}
	}
	r.Check(good, "R1", "tryLock/acquires-by-compare-and-swap", at, "tryLock answers true only as the outcome of CompareAndSwap(&locked, 0, 1)",
		"tryLock can answer true without having won a compare-and-swap on the busy flag: two announces arriving together (the periodic round and a state query, or two rounds) both take the flag, both contact the tracker, and the second unlock panics or leaves the tracker marked busy")
}

// c15Units: trackers state their interval in seconds (BEP 3, BEP 15) and "retry in" in minutes; an integer taken from
// a reply becomes a time.Duration only multiplied by a unit of at least a second.  time.Duration(interval) alone is
// nanoseconds: every announced interval then falls under the one-minute floor and is ignored.
func c15Units(r *Report, rule string) {
	p := r.P
	n := 0
	for _, f := range p.SrcFuncs() {
		if relPkg(f) != "tracker" {
			continue
		}
		allInstrs(f, func(in ssa.Instruction) {
			cv, ok := in.(*ssa.Convert)
			if !ok || !typeIs(cv.Type(), "time", "Duration") || typeIs(cv.X.Type(), "time", "Duration") || !isInteger(cv.X.Type()) {
				return
			}
			if _, isC := cv.X.(*ssa.Const); isC {
				return
			}
			n++
			r.Fn(f)
			good := len(*cv.Referrers()) > 0
			for _, ref := range *cv.Referrers() {
				if _, isDbg := ref.(*ssa.DebugRef); isDbg {
					continue
				}
				bo, isB := ref.(*ssa.BinOp)
				if !isB || bo.Op != token.MUL {
					good = false
					continue
				}
				other := bo.Y
				if other == ssa.Value(cv) {
					other = bo.X
				}
				if k, okk := constInt(other); !okk || k < 1e9 {
					good = false
				}
			}
			r.Check(good, rule, fmt.Sprintf("%s/Duration(%s)-is-scaled", fname(f), exprStr(cv.X)), cv.Pos(), "an integer from a tracker's reply becomes a Duration only multiplied by time.Second or a larger unit",
				"a reply's integer (seconds, or minutes) is converted to time.Duration without a unit: it counts nanoseconds, the announced interval falls under the floor and is ignored, and the tracker is announced to far more often than it asked")
		})
	}
	r.Sentinel(rule+".units", n, 2)
}
