package main

import (
	"fmt"
	"go/token"
	"go/types"
	"sort"
	"strings"

	"golang.org/x/tools/go/ssa"
)

func init() {
	register(&PropSpec{
		ID: "C03",
		Explanation: "Static decision of the structural conditions for 'piece memory is accounted, evictable and fully released': " +
			"(R1) alloc.Alloc is called only from Pieces.AddData and alloc.Free only from Pieces.del; " +
			"(R2) a buffer is allocated only write-locked when the piece has none and the store is not deleted, stored and counted exactly once on the success path; after Free the data, bitmap and count are updated before the lock is released; " +
			"(R3) no double free / free while readable or hashed (C01.R5 and the lock discipline C01.R6 re-evaluated); " +
			"(R4) deletion latches before it frees (the deleted flag is set before any buffer is released, because del may release the lock while it waits for the hasher), frees the whole index range, and the torrent loop's exit defer calls it on every exit; " +
			"(R5) eviction calls back for exactly the pieces that were freed while complete, and the torrent-level callback reports have=false; " +
			"(R6) the memory manager cannot divide by zero; (R8) the allocator's counter moves by the same quantity on allocation and release.",
		Rules: []string{"R1 single allocator/deallocator (E-who)", "R2 counted once (E-must)", "R3 no double free / free while busy (shared with C01)", "R4 deletion latches, is total, runs on every exit",
			"R5 eviction reports every complete piece it drops", "R6 no division by zero in the memory manager (E-int)", "R8 allocator accounting symmetry"},
		NotDecided:  []string{"numeric equality alloc.Bytes() == sum of live buffer sizes over all histories", "that an eviction pass reaches the low-water mark", "LRU order of eviction (comparator is value logic)"},
		Assumptions: []string{"unix.Mmap returns a slice with len == cap == the requested size", "sync.RWMutex / atomic semantics"},
		Run:         runC03,
	})
}

func runC03(r *Report) {
	p := r.P
	c := newPieceCtx(r, "R1")
	if !c.ok {
		return
	}
	c03R1(r)
	c03R2(r, c)
	c.r2("R3")
	c.r5("R3")
	c.r6("R3")
	c03R4(r, c)
	c03R5(r)
	c03R6(r)
	c03R8(r)
	atomicWrites(r, "R8", objNamed("alloc", "allocated"), 1)
	c03R9(r)
	c03R10(r)
	rangeExhaustive(r, "R10", func(f *ssa.Function) bool { return relPkg(f) == "tor" && f.Name() == "Expire" }, 2)
	c03R11(r)
	// eviction walks the table of torrents: a running torrent that is not in it is never evicted (C17.R4 re-evaluated)
	c17Table(r, "R4")
	_ = p
}

func c03R1(r *Report) {
	p := r.P
	for _, sp := range [][3]string{{"Alloc", "AddData", "alloc.Alloc may be called only from Pieces.AddData"}, {"Free", "del", "alloc.Free may be called only from Pieces.del"}} {
		f := p.Func("alloc", sp[0])
		if !r.Anchor("R1", "alloc."+sp[0], f != nil) {
			continue
		}
		calls, esc := p.callSitesOf(f)
		for _, e := range esc {
			r.Fail("R1", "alloc."+sp[0]+"/escapes", e.Pos(), "alloc.%s is used as a function value", sp[0])
		}
		n := 0
		for _, cs := range calls {
			n++
			owner := enclosingNamed(cs.Parent())
			key := fmt.Sprintf("alloc.%s/called-from/%s", sp[0], fname(owner))
			root := p.Func("tor/piece", "Pieces."+sp[1])
			if relPkg(owner) == "tor/piece" && owner.Name() == sp[1] {
				r.Ok("R1", key, cs.Pos(), "the designated caller")
			} else if root != nil && relPkg(owner) == "tor/piece" && p.inUnitOf(owner, root) {
				r.Ok("R1", key, cs.Pos(), "a private helper of the designated caller %s (every call chain to it starts there)", sp[1])
			} else {
				r.Fail("R1", key, cs.Pos(), "%s: a second %s site bypasses the count/lock/state discipline of the piece store", sp[2], strings.ToLower(sp[0]))
			}
		}
		r.Sentinel("R1."+sp[0], n, 1)
	}
}

func isStoreToField(in ssa.Instruction, fv *types.Var) (*ssa.Store, bool) {
	st, ok := in.(*ssa.Store)
	if !ok {
		return nil, false
	}
	fa, ok := st.Addr.(*ssa.FieldAddr)
	if !ok || fieldVar(fa) != fv {
		return nil, false
	}
	return st, true
}

// countDelta: in is `ps.count = ps.count ± 1`; returns ±1.
func countDelta(in ssa.Instruction, count *types.Var) int {
	st, ok := isStoreToField(in, count)
	if !ok {
		return 0
	}
	bo, ok := st.Val.(*ssa.BinOp)
	if !ok {
		return 0
	}
	fv, _ := loadedField(bo.X)
	k, okk := constInt(bo.Y)
	if fv != count || !okk || k != 1 {
		return 0
	}
	switch bo.Op {
	case token.ADD:
		return 1
	case token.SUB:
		return -1
	}
	return 0
}

func c03R2(r *Report, c *pieceCtx) {
	p := r.P
	add := p.Func("tor/piece", "Pieces.AddData")
	del := p.Func("tor/piece", "Pieces.del")
	if !r.Anchor("R2", "piece.(*Pieces).AddData", add != nil) || !r.Anchor("R2", "piece.(*Pieces).del", del != nil) {
		return
	}
	r.Fn(add)
	r.Fn(del)
	// --- allocation side: centred on the alloc.Alloc call, wherever in AddData's unit it lives (R1 confines it there)
	var ac *ssa.Call
	allocF := p.Func("alloc", "Alloc")
	if allocF != nil {
		calls, _ := p.callSitesOf(allocF)
		for _, cs := range calls {
			if cc, ok := cs.(*ssa.Call); ok && relPkg(cs.Parent()) == "tor/piece" {
				ac = cc
			}
		}
	}
	if ac == nil {
		r.Undecided("R2", "AddData/Alloc", add.Pos(), "no alloc.Alloc call in package piece")
	} else {
		af := ac.Parent()
		r.Fn(af)
		st := c.la.At(ac)
		r.Check(st == LW, "R2", "AddData/Alloc/write-locked", ac.Pos(), "allocation happens write-locked", fmt.Sprintf("alloc.Alloc is called in lock state {%s}", st))
		nilG, _ := c.reval().establishedAt(ac, c.factDataNil(), 0)
		r.Check(nilG, "R2", "AddData/Alloc/only-when-data-nil", ac.Pos(), "a buffer is allocated only when the piece has none", "alloc.Alloc is not preceded on every path by data == nil tested in the same lock hold: a second buffer would be allocated (and counted) for the same piece, leaking the first")
		delG, _ := c.reval().establishedAt(ac, c.factNotDeleted(), 0)
		r.Check(delG, "R2", "AddData/Alloc/not-deleted", ac.Pos(), "nothing is allocated once the store is deleted", "alloc.Alloc is not preceded on every path by !ps.deleted tested in the same lock hold: memory can be allocated for a deleted torrent and is never released")
		// success path: store data = result, exactly one count++
		res := extractOf(ac, 0)
		errv := extractOf(ac, 1)
		stored, incs := 0, 0
		for _, fn := range p.SrcFuncs() {
			if relPkg(fn) != "tor/piece" || !p.inUnitOf(fn, add) {
				continue
			}
			allInstrs(fn, func(in ssa.Instruction) {
				if st, ok := isStoreToField(in, c.data); ok && res != nil && st.Val == res {
					stored++
					if !instrDominates(ac, in) {
						stored = -100
					}
				}
				if countDelta(in, c.count) == 1 {
					incs++
					if in.Parent() != af {
						incs = -100
					}
				}
			})
		}
		r.Check(stored == 1, "R2", "AddData/Alloc/stored", ac.Pos(), "the new buffer is stored in the piece", "the buffer returned by alloc.Alloc is not stored into Piece.data exactly once")
		r.Check(incs == 1, "R2", "AddData/count++-once", ac.Pos(), "the piece count is incremented exactly once, next to the allocation", fmt.Sprintf("AddData (with its helpers) does not increment the piece count exactly once in the function that allocates (found %d)", incs))
		// count++ and the store are on the err == nil side and reached on every such path
		if errv != nil {
			exits := unreportedExits(mustCfg{ac, func(in ssa.Instruction) bool { return countDelta(in, c.count) == 1 }, []excuse{{errNeqNil(errv), true}}})
			r.Check(len(exits) == 0, "R2", "AddData/count++-on-success", ac.Pos(), "every path on which the allocation succeeded counts the piece", "a path on which alloc.Alloc succeeded returns without incrementing the count")
			// and not on the failure path
			inc := false
			allInstrs(af, func(in ssa.Instruction) {
				if countDelta(in, c.count) == 1 {
					for _, g := range guardsOf(in.Block()) {
						g = g.norm()
						if bo, ok := g.Cond.(*ssa.BinOp); ok && isNilConst(bo.Y) && sameErr(bo.X, errv) && ((bo.Op == token.NEQ && !g.Pol) || (bo.Op == token.EQL && g.Pol)) {
							inc = true
						}
					}
				}
			})
			r.Check(inc, "R2", "AddData/count++-only-on-success", ac.Pos(), "the count is incremented only when the allocation succeeded", "count++ is not guarded by the allocation's err == nil")
		}
	}
	// --- release side
	var fc *ssa.Call
	if freeF := p.Func("alloc", "Free"); freeF != nil {
		calls, _ := p.callSitesOf(freeF)
		for _, cs := range calls {
			if cc, ok := cs.(*ssa.Call); ok && relPkg(cs.Parent()) == "tor/piece" {
				fc = cc
			}
		}
	}
	if fc == nil {
		r.Undecided("R2", "del/Free", del.Pos(), "no alloc.Free call in package piece")
		return
	}
	ff := fc.Parent()
	r.Fn(ff)
	for _, w := range []struct {
		name string
		pred func(ssa.Instruction) bool
	}{
		{"data=nil", func(in ssa.Instruction) bool { st, ok := isStoreToField(in, c.data); return ok && isNilConst(st.Val) }},
		{"bitmap=nil", func(in ssa.Instruction) bool {
			st, ok := isStoreToField(in, c.bitmapF)
			return ok && isNilConst(st.Val)
		}},
		{"count--", func(in ssa.Instruction) bool { return countDelta(in, c.count) == -1 }},
	} {
		exits := exitsAvoiding(fc, w.pred, false)
		unl := pathHasBefore(fc, w.pred, c.isUnlock)
		r.Check(len(exits) == 0 && !unl, "R2", "del/after-Free/"+w.name, fc.Pos(), "after Free, "+w.name+" happens on every path before the lock is released",
			"after alloc.Free, "+w.name+" is not executed on every path before return/unlock")
	}
	decs := 0
	for _, fn := range p.SrcFuncs() {
		if relPkg(fn) != "tor/piece" || !p.inUnitOf(fn, del) {
			continue
		}
		allInstrs(fn, func(in ssa.Instruction) {
			if countDelta(in, c.count) == -1 {
				decs++
				if in.Parent() != ff {
					decs = -100
				}
			}
		})
	}
	r.Check(decs == 1, "R2", "del/count---once", fc.Pos(), "the count is decremented exactly once per freed buffer", fmt.Sprintf("del decrements the count %d times", decs))
	// no other writer of count
	for _, acc := range p.fieldAccesses(c.count) {
		if acc.Write && acc.Fn != add && acc.Fn != del && !p.inUnitOf(acc.Fn, add, del) {
			r.Fail("R2", "count-writer/"+fname(acc.Fn), acc.Instr.Pos(), "Pieces.count is modified outside AddData/del")
		}
	}
}

// errNeqNil finds (or denotes) the boolean `err != nil` for errv; used as an excuse value.
func errNeqNil(errv ssa.Value) ssa.Value {
	for _, ref := range *errv.Referrers() {
		if bo, ok := ref.(*ssa.BinOp); ok && bo.Op == token.NEQ && isNilConst(bo.Y) {
			return bo
		}
	}
	// named result / reused err variable: errv is stored to a cell and reloaded; the test that reads *this* store
	// (the cell may hold the results of other calls at other times)
	for _, ref := range *errv.Referrers() {
		st, ok := ref.(*ssa.Store)
		if !ok {
			continue
		}
		al, ok := st.Addr.(*ssa.Alloc)
		if !ok {
			continue
		}
		for _, r2 := range *al.Referrers() {
			ld, ok := r2.(*ssa.UnOp)
			if !ok || ld.Op != token.MUL || reachingStore(ld) != st {
				continue
			}
			for _, r3 := range *ld.Referrers() {
				if bo, ok := r3.(*ssa.BinOp); ok && (bo.Op == token.NEQ || bo.Op == token.EQL) && isNilConst(bo.Y) {
					if bo.Op == token.NEQ {
						return bo
					}
				}
			}
		}
	}
	return errv
}

func sameErr(v, errv ssa.Value) bool {
	if v == errv {
		return true
	}
	// load of the named-result alloc that errv was stored into
	if ld, ok := v.(*ssa.UnOp); ok && ld.Op == token.MUL {
		if al, ok := ld.X.(*ssa.Alloc); ok {
			for _, ref := range *al.Referrers() {
				if st, ok := ref.(*ssa.Store); ok && st.Val == errv {
					return true
				}
			}
		}
	}
	return false
}

// pathHasBefore: from `from`, an instruction satisfying bad is reachable before one satisfying stop.
func pathHasBefore(from ssa.Instruction, stop, bad func(ssa.Instruction) bool) bool {
	found := false
	seen := map[*ssa.BasicBlock]bool{}
	var walk func(b *ssa.BasicBlock, idx int)
	walk = func(b *ssa.BasicBlock, idx int) {
		for i := idx; i < len(b.Instrs); i++ {
			in := b.Instrs[i]
			if stop(in) {
				return
			}
			if bad(in) {
				found = true
				return
			}
			if _, isp := in.(*ssa.Panic); isp {
				return
			}
		}
		for _, s := range b.Succs {
			if !seen[s] {
				seen[s] = true
				walk(s, 0)
			}
		}
	}
	walk(from.Block(), instrIndex(from)+1)
	return found
}

func c03R4(r *Report, c *pieceCtx) {
	p := r.P
	Del := p.Func("tor/piece", "Pieces.Del")
	del := p.Func("tor/piece", "Pieces.del")
	if !r.Anchor("R4", "piece.(*Pieces).Del", Del != nil) || !r.Anchor("R4", "piece.(*Pieces).del", del != nil) {
		return
	}
	r.Fn(Del)
	var latch *ssa.Store
	var latchAt ssa.Instruction // the latch, or the call in Del of the private helper that sets it (markDeleted())
	var delCalls []*ssa.Call
	delLikeD := delLikeFuncs(r, del)
	allInstrs(Del, func(in ssa.Instruction) {
		if st, ok := isStoreToField(in, c.deleted); ok {
			if b, isb := constBool(st.Val); isb && b {
				latch, latchAt = st, st
			}
		}
		if delLikeD[calleeOf(in)] {
			delCalls = append(delCalls, in.(*ssa.Call))
		}
		if cc, ok := in.(*ssa.Call); ok && latch == nil {
			if h := cc.Call.StaticCallee(); h != nil && h.Blocks != nil && relPkg(h) == "tor/piece" && h != del && !delLikeD[h] && p.inUnitOf(h, Del) {
				allInstrs(h, func(i2 ssa.Instruction) {
					if st, ok := isStoreToField(i2, c.deleted); ok {
						if b, isb := constBool(st.Val); isb && b {
							latch, latchAt = st, cc
							r.Fn(h)
						}
					}
				})
			}
		}
	})
	if latch == nil {
		r.Fail("R4", "Del/latch", Del.Pos(), "Pieces.Del no longer sets deleted = true: AddData keeps allocating for a deleted torrent")
	} else {
		r.Check(c.la.At(latch) == LW, "R4", "Del/latch/write-locked", latch.Pos(), "the deleted flag is set write-locked", "the deleted flag is set without the write lock")
		// del may release the lock while it waits for the hasher: the latch must precede the first free
		delUnlocks := anyInstr(del, c.isUnlock) != nil
		before := true
		for _, dc := range delCalls {
			if !instrDominates(latchAt, dc) {
				before = false
			}
		}
		switch {
		case before:
			r.Ok("R4", "Del/latch-before-free", latch.Pos(), "deleted is latched before any buffer is freed")
		case !delUnlocks:
			r.Ok("R4", "Del/latch-before-free", latch.Pos(), "deleted is latched in the same uninterrupted lock hold as the frees (del never unlocks)")
		default:
			r.Fail("R4", "Del/latch-before-free", latch.Pos(), "Pieces.Del frees the pieces first and sets deleted afterwards, but del(i, true) releases the lock while it waits for a piece that is being hashed: in that window AddData (deleted still false) allocates a new buffer for an already-freed piece, which is never released")
		}
	}
	// frees the whole range with force
	full := false
	for _, dc := range delCalls {
		if b, ok := constBool(dc.Call.Args[2]); !ok || !b {
			r.Fail("R4", "Del/del(i,true)", dc.Pos(), "Pieces.Del calls del without force: busy pieces keep their memory")
			continue
		}
		idx := stripIntConv(dc.Call.Args[1])
		if coversFromZero(idx) {
			// loop bound idx < len(ps.pieces): as a dominating guard (for i := 0; i < len; i++ / for i := range s)
			// or as the merged guard of a rotated loop
			if hasGuard(dc.Block(), func(op token.Token, x, y ssa.Value) bool {
				if op != token.LSS || stripIntConv(x) != idx {
					return false
				}
				cv, ok := stripIntConv(y).(*ssa.Call)
				if !ok {
					return false
				}
				bi, ok := cv.Call.Value.(*ssa.Builtin)
				if !ok || bi.Name() != "len" {
					return false
				}
				fv, _ := loadedFieldAny(strip(cv.Call.Args[0]))
				return fv != nil && fv.Name() == "pieces"
			}) {
				full = true
			}
		}
	}
	r.Check(full, "R4", "Del/whole-range", Del.Pos(), "every piece index from 0 to len(pieces)-1 is freed with force", "Pieces.Del does not visibly iterate del(i, true) over the whole index range 0..len(pieces)-1")
	// run's exit defer: shared with C17.R4
	run := p.Func("tor", "Torrent.run")
	if r.Anchor("R4", "tor.(*Torrent).run", run != nil) {
		r.Fn(run)
		ok := false
		for _, a := range exitActions(run) {
			if a.Callee == Del {
				if dom, _ := deferDominatesReturns(a.Defer); dom {
					ok = true
				}
			}
		}
		r.Check(ok, "R4", "Torrent.run/defer-Pieces.Del", run.Pos(), "the torrent loop frees its store on every exit", "no deferred function of run that dominates every return calls Pieces.Del")
	}
	calls, _ := p.callSitesOf(Del)
	r.Sentinel("R4.Del-callers", len(calls), 1)
}

func c03R5(r *Report) {
	p := r.P
	exp := p.Func("tor/piece", "Pieces.Expire")
	del := p.Func("tor/piece", "Pieces.del")
	if !r.Anchor("R5", "piece.(*Pieces).Expire", exp != nil) || !r.Anchor("R5", "piece.(*Pieces).del", del != nil) {
		return
	}
	r.Fn(exp)
	fparam := exp.Params[len(exp.Params)-1]
	delLike := delLikeFuncs(r, del)
	n := 0
	allInstrs(exp, func(in ssa.Instruction) {
		c, ok := in.(*ssa.Call)
		if !ok || c.Call.Value != ssa.Value(fparam) {
			return
		}
		n++
		// dominated by done == true and complete == true of one del call, with the same index
		var dc *ssa.Call
		doneOK, compOK := false, false
		for _, g := range guardsOf(c.Block()) {
			g = g.norm()
			ex, ok := g.Cond.(*ssa.Extract)
			if !ok || !g.Pol {
				continue
			}
			cc, ok := ex.Tuple.(*ssa.Call)
			if !ok || !delLike[cc.Call.StaticCallee()] {
				continue
			}
			if dc != nil && dc != cc {
				continue
			}
			dc = cc
			if ex.Index == 0 {
				doneOK = true
			}
			if ex.Index == 1 {
				compOK = true
			}
		}
		sameIdx := dc != nil && len(c.Call.Args) == 1 && c.Call.Args[0] == dc.Call.Args[1]
		r.Check(doneOK && compOK && sameIdx, "R5", "Pieces.Expire/callback", c.Pos(), "the callback is invoked for exactly the piece that del freed while complete",
			"the eviction callback is not control-dependent on del's (done, complete) results for the same index: a dropped complete piece stays advertised, or an undropped one is withdrawn")
		// and nothing else guards it (e.g. an extra condition that suppresses reports)
		extra := 0
		for _, g := range guardsOf(c.Block()) {
			g = g.norm()
			if ex, ok := g.Cond.(*ssa.Extract); ok {
				if cc, ok := ex.Tuple.(*ssa.Call); ok && delLike[cc.Call.StaticCallee()] {
					continue
				}
			}
			// loop-structure guards (range index, todo > 0) dominate the whole body including del itself
			if dc != nil && guardDominatesInstr(g, dc) {
				continue
			}
			extra++
		}
		r.Check(extra == 0, "R5", "Pieces.Expire/callback-unconditional", c.Pos(), "no further condition stands between a freed complete piece and its report", "an additional condition can suppress the report of a freed complete piece")
	})
	r.Sentinel("R5", n, 1)
	// torrent-level callback
	te := p.Func("tor", "Expire")
	have := p.Func("tor", "Torrent.Have")
	if !r.Anchor("R5", "tor.Expire", te != nil) || !r.Anchor("R5", "tor.(*Torrent).Have", have != nil) {
		return
	}
	r.Fn(te)
	m := 0
	for _, f := range p.SrcFuncs() {
		// every call of Pieces.Expire in package tor (tor.Expire, or a helper factored out of it)
		if relPkg(f) != "tor" {
			continue
		}
		allInstrs(f, func(in ssa.Instruction) {
			ci, ok := in.(ssa.CallInstruction)
			if !ok || ci.Common().StaticCallee() != exp {
				return
			}
			m++
			args := ci.Common().Args
			cb := args[len(args)-1]
			okk := false
			if mc, ok := cb.(*ssa.MakeClosure); ok {
				if fn, ok := mc.Fn.(*ssa.Function); ok {
					okk = anyInstr(fn, func(i ssa.Instruction) bool {
						if calleeOf(i) != have {
							return false
						}
						a := callArgs(i)
						b, isb := constBool(a[2])
						return isb && !b && a[1] == ssa.Value(fn.Params[0])
					}) != nil
				}
			}
			r.Check(okk, "R5", "tor.Expire/callback-Have(index,false)", in.Pos(), "every evicted complete piece is reported with Have(index, false)", "the callback handed to Pieces.Expire does not call t.Have(index, false) for the evicted index")
		})
	}
	r.Sentinel("R5.tor", m, 1)
}

func guardDominatesInstr(g Guard, in ssa.Instruction) bool {
	if g.If == nil {
		return false
	}
	for _, gg := range guardsOf(in.Block()) {
		if gg.If == g.If {
			return true
		}
	}
	return false
}

func c03R6(r *Report) {
	p := r.P
	env := &IntEnv{SameVal: func(a, b ssa.Value) bool {
		return sameAllocLoad(a, b) || sameAllocLoad(stripIntConv(a), stripIntConv(b))
	}}
	type fnref struct{ pkg, name string }
	var fns []*ssa.Function
	for _, fr := range []fnref{{"tor", "Expire"}, {"tor/piece", "Pieces.Expire"}, {"tor/piece", "Pieces.Bytes"}, {"alloc", "Alloc"}, {"alloc", "Free"}, {"alloc", "Bytes"}} {
		f := p.Func(fr.pkg, fr.name)
		if !r.Anchor("R6", fr.pkg+"."+fr.name, f != nil) {
			continue
		}
		fns = append(fns, f)
		for _, af := range f.AnonFuncs {
			fns = append(fns, af)
		}
	}
	n := 0
	for _, f := range fns {
		r.Fn(f)
		allInstrs(f, func(in ssa.Instruction) {
			bo, ok := in.(*ssa.BinOp)
			if !ok || (bo.Op != token.QUO && bo.Op != token.REM) || !isInteger(bo.Type()) {
				return
			}
			n++
			key := fmt.Sprintf("%s/%s%s%s", fname(f), exprStr(bo.X), bo.Op, exprStr(bo.Y))
			if env.nonZeroAt(bo.Y, bo.Block()) {
				r.Ok("R6", key, bo.Pos(), "divisor %s cannot be zero here (%s)", exprStr(bo.Y), env.At(bo.Y, bo.Block()))
			} else {
				r.Fail("R6", key, bo.Pos(), "integer division by %s, which can be zero here (interval %s, no dominating guard): the memory manager panics", exprStr(bo.Y), env.At(bo.Y, bo.Block()))
			}
		})
	}
	r.Sentinel("R6", n, 2)
	// explicit panics of the manager (informational)
	var pans []string
	for _, f := range p.SrcFuncs() {
		if relPkg(f) != "tor/piece" && relPkg(f) != "alloc" {
			continue
		}
		allInstrs(f, func(in ssa.Instruction) {
			if pi, ok := in.(*ssa.Panic); ok && pi.Pos().IsValid() {
				pans = append(pans, fmt.Sprintf("%s (%s)", fname(f), p.pos(pi.Pos())))
			}
		})
	}
	sort.Strings(pans)
	r.Notes = append(r.Notes, "R7 (informational): explicit panics in the memory manager — assertions of R2 (negative count), of alloc.Free's error and of the state CAS: "+strings.Join(pans, "; "))
}

// R8: the allocator's counter moves by the same quantity in both directions: every atomic.AddInt64(&allocated, v)
// in Alloc adds int64(size) (the size requested, which is the len/cap of the slice handed out) or int64(cap(x)) of
// the slice it returns; every one in Free subtracts int64(cap(p)) / int64(len(p)) of its argument.
func c03R8(r *Report) {
	p := r.P
	al := p.Func("alloc", "Alloc")
	fr := p.Func("alloc", "Free")
	if !r.Anchor("R8", "alloc.Alloc", al != nil) || !r.Anchor("R8", "alloc.Free", fr != nil) {
		return
	}
	r.Fn(al)
	r.Fn(fr)
	n := 0
	// slices returned by Alloc
	returned := map[ssa.Value]bool{}
	for _, ret := range returnsOf(al) {
		v := ret.Results[0]
		for {
			returned[v] = true
			if sl, ok := v.(*ssa.Slice); ok {
				v = sl.X
				continue
			}
			break
		}
	}
	sizeOrCap := func(v ssa.Value, param ssa.Value, slices map[ssa.Value]bool) bool {
		v = stripIntConv(v)
		if v == param {
			return true
		}
		if c, ok := v.(*ssa.Call); ok {
			if bi, ok := c.Call.Value.(*ssa.Builtin); ok && (bi.Name() == "cap" || bi.Name() == "len") {
				return slices[c.Call.Args[0]] || c.Call.Args[0] == param
			}
		}
		return false
	}
	// wrappers: package-local functions that pass one of their parameters on as the delta of the counter update
	// (account(delta) { atomic.AddInt64(&allocated, delta) })
	wrapper := map[*ssa.Function]int{}
	for _, f := range p.SrcFuncs() {
		if relPkg(f) != "alloc" || f == al || f == fr {
			continue
		}
		allInstrs(f, func(in ssa.Instruction) {
			if !isAtomicAdd(in) {
				return
			}
			d := stripIntConv(in.(*ssa.Call).Call.Args[1])
			for k, prm := range f.Params {
				if d == ssa.Value(prm) {
					wrapper[f] = k
				}
			}
		})
	}
	check := func(f *ssa.Function, neg bool) {
		allInstrs(f, func(in ssa.Instruction) {
			c, isCall := in.(*ssa.Call)
			if !isCall {
				return
			}
			var v ssa.Value
			if isAtomicAdd(in) {
				v = c.Call.Args[1]
			} else if k, isW := wrapper[c.Call.StaticCallee()]; isW && c.Call.StaticCallee() != nil && k < len(c.Call.Args) {
				v = c.Call.Args[k]
			} else {
				return
			}
			n++
			key := fmt.Sprintf("%s/AddInt64(allocated)", fname(f))
			if neg {
				u, ok := v.(*ssa.UnOp)
				if !ok || u.Op != token.SUB || !sizeOrCap(u.X, f.Params[0], nil) {
					r.Fail("R8", key, c.Pos(), "Free adjusts the allocation counter by %s, not by -cap/len of the buffer it releases: the counter drifts from the memory actually held", exprStr(v))
					return
				}
				r.Ok("R8", key, c.Pos(), "Free subtracts the size of the buffer it releases")
			} else {
				if !sizeOrCap(v, f.Params[0], returned) {
					r.Fail("R8", key, c.Pos(), "Alloc adjusts the allocation counter by %s, which is neither the requested size nor the cap of the slice it returns (what Free will subtract): the counter drifts", exprStr(v))
					return
				}
				r.Ok("R8", key, c.Pos(), "Alloc adds the size of the buffer it hands out")
			}
		})
	}
	check(al, false)
	check(fr, true)
	r.Sentinel("R8", n, 2)
}

// coversFromZero: idx takes the values 0, 1, 2, … : a counter phi(0, idx+1), or the index of a range loop,
// which go/ssa shapes as phi(-1, ·+1) + 1.
func coversFromZero(idx ssa.Value) bool {
	if init, step, ok := loopCounter(idx); ok && init == 0 && step == 1 {
		return true
	}
	if bo, ok := idx.(*ssa.BinOp); ok && bo.Op == token.ADD {
		for _, pr := range [][2]ssa.Value{{bo.X, bo.Y}, {bo.Y, bo.X}} {
			if k, okk := constInt(pr[1]); okk && k == 1 {
				if init, step, ok := loopCounter(pr[0]); ok && init == -1 && step == 1 {
					return true
				}
			}
		}
	}
	return false
}

// R9: two structural conditions found by the second round of seeded changes.
// (a) alloc.Alloc adjusts the counter only on paths that hand out a buffer: from an adjustment of the counter no
//
//	return with a non-nil error is reachable (a failed mmap must leave Bytes() unchanged: nobody can ever free
//	the phantom bytes).
//
// (b) the eviction order is by access time only if accesses refresh it: every path through Torrent.Request on which
//
//	`request` is true calls Pieces.UpdateTime before it returns successfully (a read served from the cache
//	must still count as an access).
func c03R9(r *Report) {
	p := r.P
	if al := p.Func("alloc", "Alloc"); r.Anchor("R9", "alloc.Alloc", al != nil) {
		r.Fn(al)
		ne := newNilEnv(p)
		n := 0
		isAdjust := func(in ssa.Instruction) bool {
			c, ok := in.(*ssa.Call)
			if !ok {
				return false
			}
			if isAtomicAdd(in) {
				return true
			}
			h := c.Call.StaticCallee()
			return h != nil && h.Blocks != nil && relPkg(h) == "alloc" && h != al && anyInstr(h, func(i ssa.Instruction) bool { return isAtomicAdd(i) }) != nil
		}
		allInstrs(al, func(in ssa.Instruction) {
			if !isAdjust(in) {
				return
			}
			n++
			key := fmt.Sprintf("alloc.Alloc/counter-only-on-success#%d", n)
			bad := ""
			for _, ex := range exitsAvoiding(in, func(ssa.Instruction) bool { return false }, false) {
				ret, ok := ex.(*ssa.Return)
				if !ok {
					continue
				}
				res := retResults(ret)
				if len(res) == 0 {
					continue
				}
				ev := res[len(res)-1]
				if !isNilConst(ev) && ne.At(ev, ret.Block()) != IsNil {
					bad = p.pos(ret.Pos())
				}
			}
			r.Check(bad == "", "R9", key, in.Pos(), "the counter is adjusted only on paths that return a buffer",
				"the allocation counter is increased on a path that can still fail (return at "+bad+" with a non-nil error): a failed mmap leaves Bytes() too high for good — no buffer exists that Free could subtract")
		})
		r.Sentinel("R9.alloc", n, 2)
	}
	req := p.Func("tor", "Torrent.Request")
	upd := p.Func("tor/piece", "Pieces.UpdateTime")
	if r.Anchor("R9", "tor.(*Torrent).Request", req != nil) && r.Anchor("R9", "piece.(*Pieces).UpdateTime", upd != nil) {
		r.Fn(req)
		rq := req.Params[3] // t, index, prio, request, want
		var start *ssa.If
		pol := true
		allInstrs(req, func(in ssa.Instruction) {
			iff, ok := in.(*ssa.If)
			if !ok {
				return
			}
			g := Guard{Cond: iff.Cond, Pol: true}.norm()
			if g.Cond == ssa.Value(rq) && start == nil {
				start, pol = iff, g.Pol
			}
		})
		key := "Torrent.Request/access-refreshes-time"
		if start == nil {
			// no branch on `request`: then UpdateTime must be on every path to a successful return
			miss, reached := pathsMissingEntry(req, func(in ssa.Instruction) bool {
				ret, ok := in.(*ssa.Return)
				return ok && isNilConst(retResults(ret)[2])
			}, nil, []edgeReq{{Name: "UpdateTime", Instr: func(in ssa.Instruction) bool { return calleeOf(in) == upd }}})
			r.Check(reached > 0 && len(miss) == 0, "R9", key, req.Pos(), "every successful request refreshes the piece's access time", "Torrent.Request can succeed without calling Pieces.UpdateTime: pieces are evicted in the order they were first requested, not least-recently-accessed first")
		} else {
			edge := 0
			if !pol {
				edge = 1
			}
			miss, reached := pathsMissingX(start, edge, func(in ssa.Instruction) bool {
				ret, ok := in.(*ssa.Return)
				return ok && isNilConst(retResults(ret)[2])
			}, nil, []edgeReq{{Name: "UpdateTime", Instr: func(in ssa.Instruction) bool { return calleeOf(in) == upd }}}, nil)
			r.Check(reached > 0 && len(miss) == 0, "R9", key, start.Pos(), "every path on which a piece is requested refreshes its access time before returning, complete or not",
				"a path through Torrent.Request with request == true returns successfully without Pieces.UpdateTime (the only writer of a piece's access time): a read served from the cache no longer counts as an access and the piece is evicted as if it had never been used again")
		}
	}
}

// ---------- R10: eviction targets are shares of the low-water mark ----------

// c03R10: in tor.Expire every per-torrent threshold — a value a torrent's Bytes() is compared with, or the target handed
// to Pieces.Expire — is a quotient whose numerator contains the configured low-water mark: the mark (less what the
// small torrents keep) is divided among the torrents. A threshold of another shape (the mark itself minus a share:
// `low - smallspace/bigcount`) lets the targets add up to more than the mark, so an eviction pass cannot bring the
// total below it whenever several torrents are above their share.
func c03R10(r *Report) {
	p := r.P
	exp := p.Func("tor", "Expire")
	pexp := p.Func("tor/piece", "Pieces.Expire")
	pbytes := p.Func("tor/piece", "Pieces.Bytes")
	if !r.Anchor("R10", "tor.Expire", exp != nil) || !r.Anchor("R10", "piece.(*Pieces).Expire/Bytes", pexp != nil && pbytes != nil) {
		return
	}
	fns := append([]*ssa.Function{exp}, exp.AnonFuncs...)
	// resolve: a value as seen in tor.Expire (through conversions, captured single-assignment variables)
	var resolve func(v ssa.Value, d int) ssa.Value
	cellValue := func(al *ssa.Alloc) ssa.Value {
		var val ssa.Value
		n := 0
		var visit func(x ssa.Value)
		visit = func(x ssa.Value) {
			for _, ref := range *x.Referrers() {
				if st, ok := ref.(*ssa.Store); ok && st.Addr == x {
					val = st.Val
					n++
				}
			}
		}
		visit(al)
		// stores through the closures that capture the cell
		for _, ref := range *al.Referrers() {
			mc, ok := ref.(*ssa.MakeClosure)
			if !ok {
				continue
			}
			fn := mc.Fn.(*ssa.Function)
			for i, b := range mc.Bindings {
				if b == ssa.Value(al) && i < len(fn.FreeVars) {
					visit(fn.FreeVars[i])
				}
			}
		}
		if n == 1 {
			return val
		}
		return nil
	}
	resolve = func(v ssa.Value, d int) ssa.Value {
		if d > 8 || v == nil {
			return v
		}
		v = stripIntConv(v)
		ld, ok := v.(*ssa.UnOp)
		if !ok || ld.Op != token.MUL {
			return v
		}
		switch x := ld.X.(type) {
		case *ssa.Alloc:
			if val := cellValue(x); val != nil {
				return resolve(val, d+1)
			}
		case *ssa.FreeVar:
			fn := x.Parent()
			for i, fv := range fn.FreeVars {
				if fv != x {
					continue
				}
				for _, ref := range *fn.Referrers() {
					if mc, ok := ref.(*ssa.MakeClosure); ok && i < len(mc.Bindings) {
						if al, ok := mc.Bindings[i].(*ssa.Alloc); ok {
							if val := cellValue(al); val != nil {
								return resolve(val, d+1)
							}
						}
					}
				}
			}
		}
		return v
	}
	var mentionsLow func(v ssa.Value, d int) bool
	mentionsLow = func(v ssa.Value, d int) bool {
		if d > 8 || v == nil {
			return false
		}
		v = resolve(v, 0)
		switch x := v.(type) {
		case *ssa.Call:
			if o := calleeObj(x); o != nil && o.Name() == "MemoryLowMark" {
				return true
			}
		case *ssa.BinOp:
			if x.Op == token.ADD || x.Op == token.SUB {
				return mentionsLow(x.X, d+1) || mentionsLow(x.Y, d+1)
			}
		case *ssa.Convert:
			return mentionsLow(x.X, d+1)
		}
		return false
	}
	isBytes := func(v ssa.Value) bool {
		c, ok := resolve(v, 0).(*ssa.Call)
		return ok && c.Call.StaticCallee() == pbytes
	}
	n := 0
	// isShare: v is (low − kept) / count, possibly computed by a helper of the package that is handed the mark
	var isShare func(v ssa.Value, env map[*ssa.Parameter]ssa.Value, d int) bool
	var mentionsLowIn func(v ssa.Value, env map[*ssa.Parameter]ssa.Value, d int) bool
	mentionsLowIn = func(v ssa.Value, env map[*ssa.Parameter]ssa.Value, d int) bool {
		if d > 8 || v == nil {
			return false
		}
		v = resolve(v, 0)
		switch x := v.(type) {
		case *ssa.Parameter:
			if a, ok := env[x]; ok {
				return mentionsLow(a, 0)
			}
		case *ssa.BinOp:
			if x.Op == token.ADD || x.Op == token.SUB {
				return mentionsLowIn(x.X, env, d+1) || mentionsLowIn(x.Y, env, d+1)
			}
		case *ssa.Convert:
			return mentionsLowIn(x.X, env, d+1)
		}
		return mentionsLow(v, 0)
	}
	isShare = func(v ssa.Value, env map[*ssa.Parameter]ssa.Value, d int) bool {
		if d > 3 || v == nil {
			return false
		}
		v = resolve(v, 0)
		switch x := v.(type) {
		case *ssa.BinOp:
			return x.Op == token.QUO && mentionsLowIn(x.X, env, 0)
		case *ssa.Convert:
			return isShare(x.X, env, d+1)
		case *ssa.Call:
			h := x.Call.StaticCallee()
			if h == nil || h.Blocks == nil || relPkg(h) != "tor" || x.Call.IsInvoke() {
				return false
			}
			env2 := map[*ssa.Parameter]ssa.Value{}
			for i, prm := range h.Params {
				if i < len(x.Call.Args) {
					env2[prm] = x.Call.Args[i]
				}
			}
			rets := returnsOf(h)
			for _, ret := range rets {
				if len(ret.Results) != 1 || !isShare(ret.Results[0], env2, d+1) {
					return false
				}
			}
			return len(rets) > 0
		}
		return false
	}
	check := func(what string, x ssa.Value, pos token.Pos) {
		n++
		v := resolve(x, 0)
		key := fmt.Sprintf("tor.Expire/%s(%s)-is-share-of-low-mark", what, exprStr(strip(x)))
		okShape := isShare(v, nil, 0)
		r.Check(okShape, "R10", key, pos, "the threshold is the low-water mark (less what is kept) divided by a number of torrents",
			"a per-torrent eviction threshold in tor.Expire is not a quotient whose numerator contains the low-water mark ("+exprStr(v)+"): the targets of the torrents above their share can add up to more than the mark, so an eviction pass does not bring the total down to it when several torrents are large")
	}
	for _, f := range fns {
		r.Fn(f)
		allInstrs(f, func(in ssa.Instruction) {
			switch x := in.(type) {
			case *ssa.BinOp:
				switch x.Op {
				case token.LSS, token.LEQ, token.GTR, token.GEQ:
				default:
					return
				}
				if isBytes(x.X) && !isBytes(x.Y) {
					check("threshold", x.Y, x.Pos())
				} else if isBytes(x.Y) && !isBytes(x.X) {
					check("threshold", x.X, x.Pos())
				}
			case *ssa.Go:
				if x.Call.StaticCallee() == pexp && len(x.Call.Args) > 1 {
					check("target", x.Call.Args[1], x.Pos())
				}
			case *ssa.Call:
				if x.Call.StaticCallee() == pexp && len(x.Call.Args) > 1 {
					check("target", x.Call.Args[1], x.Pos())
				}
			}
		})
	}
	r.Sentinel("R10", n, 2)
}

// ---------- R11: the allocator frees each buffer the way it was made ----------

// c03R11: alloc.Free decides by the buffer's length whether it was mapped (Munmap under len(p) >= K); so Alloc may hand
// out a heap buffer only for size < K and a mapping only for size >= K, with the same K. A heap buffer of K bytes or
// more (a fallback when mmap is refused, say) is later given to Munmap, which fails — and Pieces.del panics on that
// error with the store's lock held.
func c03R11(r *Report) {
	p := r.P
	var fns []*ssa.Function
	for _, f := range p.SrcFuncs() {
		if relPkg(f) == "alloc" {
			fns = append(fns, f)
		}
	}
	var munmaps, mmaps []*ssa.Call
	var makes []ssa.Instruction
	for _, f := range fns {
		allInstrs(f, func(in ssa.Instruction) {
			switch x := in.(type) {
			case *ssa.Call:
				if o := calleeObj(x); o != nil && o.Pkg() != nil && strings.HasSuffix(o.Pkg().Path(), "x/sys/unix") {
					switch o.Name() {
					case "Munmap":
						munmaps = append(munmaps, x)
					case "Mmap":
						mmaps = append(mmaps, x)
					}
				}
			case *ssa.MakeSlice:
				makes = append(makes, x)
			}
		})
	}
	if len(munmaps) == 0 {
		r.Info("R11", "alloc/no-munmap", token.NoPos, "this build's allocator does not map memory: nothing to pair")
		return
	}
	bound := func(in ssa.Instruction, wantGE bool) (int64, bool) {
		var K int64
		found := p.factHolds(in, func(g Guard) bool {
			op, _, y, ok := cmpFact(g)
			if !ok {
				return false
			}
			k, okk := constInt(y)
			if !okk || k <= 1 {
				return false
			}
			switch {
			case wantGE && op == token.GEQ:
				K = k
			case wantGE && op == token.GTR:
				K = k + 1
			case !wantGE && op == token.LSS:
				K = k
			case !wantGE && op == token.LEQ:
				K = k + 1
			default:
				return false
			}
			return true
		}, 0)
		return K, found
	}
	n := 0
	var kFree int64
	for _, c := range munmaps {
		n++
		r.Fn(c.Parent())
		k, ok := bound(c, true)
		r.Check(ok, "R11", fname(c.Parent())+"/Munmap-only-above-cutoff", c.Pos(), "memory is unmapped only for buffers of at least the cutoff", "unix.Munmap is called on a path that has not established len(p) >= cutoff")
		if ok {
			kFree = k
		}
	}
	for _, c := range mmaps {
		n++
		r.Fn(c.Parent())
		k, ok := bound(c, true)
		r.Check(ok && (kFree == 0 || k == kFree), "R11", fname(c.Parent())+"/Mmap-only-above-cutoff", c.Pos(), "memory is mapped only for sizes of at least the cutoff Free uses", "unix.Mmap is called for a size that is not known to be >= the cutoff by which Free decides to unmap")
	}
	for _, m := range makes {
		n++
		r.Fn(m.Parent())
		k, ok := bound(m, false)
		r.Check(ok && (kFree == 0 || k == kFree), "R11", fname(m.Parent())+"/heap-buffer-only-below-cutoff", m.Pos(), "a heap buffer is handed out only for sizes below the cutoff Free uses",
			fmt.Sprintf("alloc makes a heap buffer on a path that has not established size < %d, the cutoff above which Free calls Munmap: such a buffer is later unmapped, Munmap fails with EINVAL and Pieces.del panics on the error with the store's lock held (eviction, hash mismatch or deletion of that piece kills the process)", kFree))
	}
	r.Sentinel("R11", n, 3)
}

// rangeExhaustive: a walk over the torrent table visits every torrent. tor.Range stops at the first callback that
// answers false (it wraps sync.Map.Range, whose order is random); a callback may answer false only after it has
// recorded what it was looking for (a store to a variable of the enclosing function: `found = t; return false`).
// A `return false` meant as "skip this one" ends the walk at a random point: the eviction pass then never reaches
// the torrent that is over its share, a listing loses entries.
func rangeExhaustive(r *Report, rule string, sel func(caller *ssa.Function) bool, min int) {
	p := r.P
	rng := p.Func("tor", "Range")
	if !r.Anchor(rule, "tor.Range", rng != nil) {
		return
	}
	n := 0
	calls, _ := p.callSitesOf(rng)
	for _, cs := range calls {
		caller := cs.Parent()
		if !sel(enclosingNamed(caller)) || len(cs.Common().Args) != 1 {
			continue
		}
		var cb *ssa.Function
		switch x := cs.Common().Args[0].(type) {
		case *ssa.MakeClosure:
			cb, _ = x.Fn.(*ssa.Function)
		case *ssa.Function:
			cb = x
		}
		if cb == nil || cb.Blocks == nil {
			r.Undecided(rule, fmt.Sprintf("%s/walk-is-exhaustive", fname(caller)), cs.Pos(), "the callback handed to tor.Range is not a function literal")
			continue
		}
		n++
		r.Fn(cb)
		var bad *ssa.Return
		for _, ret := range returnsOf(cb) {
			res := retResults(ret)
			if len(res) != 1 {
				continue
			}
			if b, isb := constBool(res[0]); isb && b {
				continue
			}
			// a search that has found its item: a store through a captured variable dominates the return
			found := anyInstr(cb, func(in ssa.Instruction) bool {
				st, ok := in.(*ssa.Store)
				if !ok || !instrDominates(st, ret) {
					return false
				}
				_, isFree := st.Addr.(*ssa.FreeVar)
				return isFree
			}) != nil
			if !found {
				bad = ret
			}
		}
		msg := ""
		pos := cs.Pos()
		if bad != nil {
			pos = bad.Pos()
			msg = fmt.Sprintf("the callback that %s hands to tor.Range can answer false (%s) without having recorded a result: Range stops there, at a random point of the table — the torrents after it are never visited (an eviction pass that never reaches the torrent over its share, a listing without some of its entries)", fname(enclosingNamed(caller)), p.Fset.Position(bad.Pos()))
		}
		r.Check(bad == nil, rule, fmt.Sprintf("%s/walk-is-exhaustive", fname(caller)), pos, "the callback answers true on every path (or false only after recording what it searched for)", msg)
	}
	r.Sentinel(rule+".walks", n, min)
}

// isAtomicAdd: atomic.AddInt64(&x, d), or x.Add(d) on an atomic.Int64 (the delta is the second argument either way).
func isAtomicAdd(in ssa.Instruction) bool {
	return isStdCall(in, "sync/atomic", "", "AddInt64") || isStdCall(in, "sync/atomic", "Int64", "Add")
}

// delLikeFuncs: del, and private wrappers of the package that take the lock around it and hand its results on
// unchanged (lockedDel(p, force) { Lock; defer Unlock; return ps.del(p, force) }).
func delLikeFuncs(r *Report, del *ssa.Function) map[*ssa.Function]bool {
	p := r.P
	delLike := map[*ssa.Function]bool{del: true}
	for _, wf := range p.SrcFuncs() {
		if relPkg(wf) != "tor/piece" || wf.Parent() != nil || wf == del || len(wf.Params) != len(del.Params) {
			continue
		}
		good := len(returnsOf(wf)) > 0
		for _, ret := range returnsOf(wf) {
			res := retResults(ret)
			if len(res) != 2 {
				good = false
				break
			}
			e0, ok0 := res[0].(*ssa.Extract)
			e1, ok1 := res[1].(*ssa.Extract)
			if !ok0 || !ok1 || e0.Tuple != e1.Tuple || e0.Index != 0 || e1.Index != 1 {
				good = false
				break
			}
			dcall, okc := e0.Tuple.(*ssa.Call)
			if !okc || dcall.Call.StaticCallee() != del {
				good = false
				break
			}
			for i, a := range dcall.Call.Args {
				if a != ssa.Value(wf.Params[i]) {
					good = false
				}
			}
		}
		if good {
			delLike[wf] = true
			r.Fn(wf)
		}
	}
	return delLike
}
