package main

import (
	"fmt"
	"go/token"
	"go/types"

	"golang.org/x/tools/go/ssa"
)

func init() {
	register(&PropSpec{
		ID: "C12",
		Explanation: "Static decision of the structural conditions for 'magnet metadata is accepted only if authentic': " +
			"(R1) Torrent.infoComplete is stored only by MetadataComplete, which is called only from ReadTorrent (hash computed from the very bytes) and gotMetadata; " +
			"(R2) in gotMetadata the call is dominated by the equality of sha1.Sum(t.Info) with t.Hash and by the exit of the all-blocks-present loop; every reset of the buffer resets the bitmap and the request counts with it (co-assignment); " +
			"(R3) the copy into the metadata buffer is dominated by the size, index (not off by one), block-length and not-already-present guards; the buffer and vote allocations are dominated by the 1..128 MiB size check; " +
			"(R4) the parsed geometry is validated before publication (C13.R1 re-evaluated: crafted but authentic metadata must not crash).",
		Rules:       []string{"R1 single publication point (E-who)", "R2 hash gate + co-assignment of the metadata buffer and its bookkeeping (E-dom, E-must)", "R3 copy validated; allocations bounded (E-dom, E-int)", "R4 geometry validated before publication (shared with C13)"},
		NotDecided:  []string{"completion after the last corruption (history/liveness): e.g. whether the block-length guard accepts every honest block is value arithmetic", "majority vote outcome"},
		Assumptions: []string{"crypto/sha1"},
		Run:         runC12,
	})
}

func runC12(r *Report) {
	p := r.P
	mc := p.Func("tor", "Torrent.MetadataComplete")
	gm := p.Func("tor", "gotMetadata")
	rt := p.Func("tor", "ReadTorrent")
	ic := p.Field("tor", "Torrent", "infoComplete")
	infoF := p.Field("tor", "Torrent", "Info")
	hashF := p.Field("tor", "Torrent", "Hash")
	ib := p.Field("tor", "Torrent", "infoBitmap")
	if !r.Anchor("R1", "tor.(*Torrent).MetadataComplete", mc != nil) || !r.Anchor("R1", "tor.gotMetadata", gm != nil) || !r.Anchor("R1", "tor.ReadTorrent", rt != nil) ||
		!r.Anchor("R1", "tor.Torrent.infoComplete", ic != nil) || !r.Anchor("R1", "tor.Torrent.Info", infoF != nil) || !r.Anchor("R1", "tor.Torrent.Hash", hashF != nil) || !r.Anchor("R1", "tor.Torrent.infoBitmap", ib != nil) {
		return
	}
	// ---- R1
	for _, acc := range p.fieldAccesses(ic) {
		if !acc.Write && !acc.Addr {
			continue
		}
		// address passed to atomic.StoreUint32 / LoadUint32
		fa := acc.Instr.(*ssa.FieldAddr)
		for _, ref := range *fa.Referrers() {
			switch {
			case isStdCall(ref, "sync/atomic", "", "LoadUint32"):
			case isStdCall(ref, "sync/atomic", "", "StoreUint32"):
				key := "infoComplete-store/" + fname(acc.Fn)
				v, okv := constInt(callArgs(ref)[1])
				r.Check(acc.Fn == mc && okv && v == 1, "R1", key, ref.Pos(), "infoComplete is set (to 1) by MetadataComplete", "Torrent.infoComplete is stored outside MetadataComplete (or with a value other than 1): a second publication point bypasses the hash gate")
			default:
				if _, isLoad := ref.(*ssa.UnOp); isLoad {
					continue
				}
				if _, isd := ref.(*ssa.DebugRef); isd {
					continue
				}
				r.Fail("R1", "infoComplete-access/"+fname(acc.Fn), ref.Pos(), "Torrent.infoComplete is modified or its address escapes in %s", fname(acc.Fn))
			}
		}
	}
	calls, esc := p.callSitesOf(mc)
	for _, e := range esc {
		r.Fail("R1", "MetadataComplete-escapes", e.Pos(), "MetadataComplete is used as a function value")
	}
	for _, cs := range calls {
		f := cs.Parent()
		r.Check(f == gm || f == rt, "R1", "MetadataComplete-caller/"+fname(f), cs.Pos(), "a designated caller of MetadataComplete", "MetadataComplete is called from "+fname(f)+": only ReadTorrent and gotMetadata compute the info-hash of the bytes they publish")
	}
	r.Sentinel("R1", len(calls), 2)
	// ---- R2: hash gate in gotMetadata
	r.Fn(gm)
	var call ssa.Instruction
	allInstrs(gm, func(in ssa.Instruction) {
		if calleeOf(in) == mc {
			call = in
		}
	})
	if call == nil {
		r.Fail("R2", "gotMetadata/MetadataComplete-call", gm.Pos(), "gotMetadata no longer calls MetadataComplete")
	} else {
		gated := false
		for _, g := range guardsOf(call.Block()) {
			g = g.norm()
			c, ok := g.Cond.(*ssa.Call)
			if !ok || !g.Pol {
				continue
			}
			cal := c.Call.StaticCallee()
			if cal == nil || cal.Name() != "Equal" || relPkg(cal) != "hash" {
				continue
			}
			a0, a1 := c.Call.Args[0], c.Call.Args[1]
			isSumOfInfo := func(v ssa.Value) bool {
				sl, ok := strip(v).(*ssa.Slice)
				if !ok {
					return false
				}
				al, ok := sl.X.(*ssa.Alloc)
				if !ok {
					return false
				}
				for _, ref := range *al.Referrers() {
					if st, ok := ref.(*ssa.Store); ok && st.Addr == ssa.Value(al) {
						if sc, ok := st.Val.(*ssa.Call); ok && isStdCall(sc, "crypto/sha1", "", "Sum") {
							fv, _ := loadedField(sc.Call.Args[0])
							return fv == infoF
						}
					}
				}
				return false
			}
			isHash := func(v ssa.Value) bool { fv, _ := loadedField(strip(v)); return fv == hashF }
			if (isSumOfInfo(a0) && isHash(a1)) || (isSumOfInfo(a1) && isHash(a0)) {
				gated = true
			}
		}
		r.Check(gated, "R2", "gotMetadata/hash-gate", call.Pos(), "metadata is published only when sha1.Sum(t.Info) equals t.Hash", "the call of MetadataComplete in gotMetadata is not dominated by sha1.Sum(t.Info) == t.Hash: forged metadata becomes the torrent")
		// all blocks present: dominated by the exit edge of a loop whose body returns when a bit is missing
		allPresent := false
		for _, g := range guardsOf(call.Block()) {
			bo, ok := g.Cond.(*ssa.BinOp)
			if !ok || bo.Op != token.LSS || g.Pol {
				continue
			}
			if _, _, isCtr := loopCounter(bo.X); !isCtr {
				continue
			}
			// the loop body tests infoBitmap.Get(i)
			body := g.If.Block().Succs[0]
			for b := range reachableFrom(body) {
				for _, in := range b.Instrs {
					if c, ok := in.(*ssa.Call); ok {
						if cal := c.Call.StaticCallee(); cal != nil && cal.Name() == "Get" && relPkg(cal) == "bitmap" {
							if fv, _ := loadedField(c.Call.Args[0]); fv == ib && c.Call.Args[1] == bo.X {
								allPresent = true
							}
						}
					}
				}
			}
		}
		r.Check(allPresent, "R2", "gotMetadata/all-blocks-present", call.Pos(), "the hash is checked only after every block index is present", "the publication is not dominated by the exit of the all-blocks-present loop")
	}
	metadataCoAssign(r, "R2")
	// ---- R3: the copy
	var cp *ssa.Call
	allInstrs(gm, func(in ssa.Instruction) {
		c, ok := in.(*ssa.Call)
		if !ok {
			return
		}
		if bi, ok := c.Call.Value.(*ssa.Builtin); ok && bi.Name() == "copy" {
			if sl, ok := c.Call.Args[0].(*ssa.Slice); ok {
				if fv, _ := loadedField(sl.X); fv == infoF {
					cp = c
				}
			}
		}
	})
	if cp == nil {
		r.Undecided("R3", "gotMetadata/copy", gm.Pos(), "no copy into t.Info found in gotMetadata")
	} else {
		idx, size, data := gm.Params[1], gm.Params[2], gm.Params[3]
		sizeG := hasGuard(cp.Block(), func(op token.Token, x, y ssa.Value) bool {
			return op == token.EQL && x == ssa.Value(size) && mentions(y, func(v ssa.Value) bool { fv, _ := loadedField(v); return fv == infoF }, 0)
		})
		r.Check(sizeG, "R3", "gotMetadata/size==len(Info)", cp.Pos(), "the copy is dominated by size == len(t.Info)", "the copy into the metadata buffer is not dominated by the announced size matching the buffer")
		idxG := hasGuard(cp.Block(), func(op token.Token, x, y ssa.Value) bool {
			return op == token.LSS && stripIntConv(x) == ssa.Value(idx)
		})
		r.Check(idxG, "R3", "gotMetadata/index<chunks", cp.Pos(), "the copy is dominated by index < number of blocks (strict)", "the copy is not dominated by a strict upper bound on the block index (index == count slices past the end when the size is not a multiple of 16 KiB)")
		lenG := false
		for _, g := range rejectingGuards(p, gm) {
			m1 := mentions(g.iff.Cond, func(v ssa.Value) bool { return isLenOf(v, data) }, 0)
			if m1 && g.iff.Block().Dominates(cp.Block()) {
				lenG = true
			}
			// `a && b` rejecting: the second block's condition mentions len(Info)
			if pb := g.iff.Block(); len(pb.Preds) == 1 {
				if pi, ok := pb.Preds[0].Instrs[len(pb.Preds[0].Instrs)-1].(*ssa.If); ok && mentions(pi.Cond, func(v ssa.Value) bool { return isLenOf(v, data) }, 0) && pb.Dominates(cp.Block()) == false {
					lenG = lenG || pb.Preds[0].Dominates(cp.Block())
				}
			}
		}
		r.Check(lenG, "R3", "gotMetadata/block-length-guard", cp.Pos(), "a rejecting guard on len(data) precedes the copy", "no rejecting guard on the block length precedes the copy into the metadata buffer")
		dupG := false
		for _, g := range guardsOf(cp.Block()) {
			g = g.norm()
			if c, ok := g.Cond.(*ssa.Call); ok && !g.Pol {
				if cal := c.Call.StaticCallee(); cal != nil && cal.Name() == "Get" && relPkg(cal) == "bitmap" {
					if fv, _ := loadedField(c.Call.Args[0]); fv == ib && stripIntConv(c.Call.Args[1]) == ssa.Value(idx) {
						dupG = true
					}
				}
			}
		}
		r.Check(dupG, "R3", "gotMetadata/not-already-present", cp.Pos(), "a block already present is not overwritten", "the copy is not dominated by !infoBitmap.Get(index): a later forged duplicate overwrites an honest block")
	}
	// allocations: make([]byte, size) / votes under the 1..128MiB check
	env := &IntEnv{}
	n := 0
	for _, name := range []string{"resizeMetadata", "metadataVote"} {
		f := p.Func("tor", name)
		if !r.Anchor("R3", "tor."+name, f != nil) {
			continue
		}
		r.Fn(f)
		size := f.Params[1]
		allInstrs(f, func(in ssa.Instruction) {
			uses := false
			switch x := in.(type) {
			case *ssa.MakeSlice:
				uses = mentions(x.Len, func(v ssa.Value) bool { return v == ssa.Value(size) }, 0)
			case *ssa.MapUpdate:
				uses = x.Key == ssa.Value(size)
			}
			if !uses {
				return
			}
			n++
			iv := env.At(size, in.Block())
			key := fmt.Sprintf("%s/size-bounded", name)
			r.Check(iv.Lo >= 1 && iv.Hi <= 128*1024*1024, "R3", key, in.Pos(), "announced metadata size in "+iv.String()+" here", "the announced metadata size is only known to be in "+iv.String()+" where it sizes memory / is recorded as a vote (1..128 MiB required)")
		})
	}
	r.Sentinel("R3.alloc", n, 3)
	// ---- R4
	c13R1(r, "R4")
	_ = types.Typ
}
