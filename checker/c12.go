package main

import (
	"fmt"
	"go/token"
	"go/types"
	"os"
	"sort"
	"strings"

	"golang.org/x/tools/go/ssa"
)

func init() {
	register(&PropSpec{
		ID: "C12",
		Explanation: "Static decision of the structural conditions for 'magnet metadata is accepted only if authentic': " +
			"(R1) Torrent.infoComplete is stored only by MetadataComplete, which is called only from ReadTorrent (hash computed from the very bytes) and gotMetadata; " +
			"(R2) in gotMetadata the call is dominated by the equality of sha1.Sum(t.Info) with t.Hash and by the exit of the all-blocks-present loop; every reset of the buffer resets the bitmap and the request counts with it (co-assignment); " +
			"(R3) the copy into the metadata buffer is dominated by the size, index (not off by one), block-length and not-already-present guards; the buffer and vote allocations are dominated by the 1..128 MiB size check; " +
			"(R4) the parsed geometry is validated before publication (C13.R1 re-evaluated: crafted but authentic metadata must not crash).",
		Rules:       []string{"R1 single publication point (E-who)", "R2 hash gate + co-assignment of the metadata buffer and its bookkeeping (E-dom, E-must)", "R3 copy validated; allocations bounded (E-dom, E-int)", "R4 geometry validated before publication (shared with C13)"},
		NotDecided:  []string{"completion after the last corruption (history/liveness) in general; the block-length guard itself is decided (R3 block-length-exact)", "majority vote outcome"},
		Assumptions: []string{"crypto/sha1"},
		Run:         runC12,
	})
}

func runC12(r *Report) {
	p := r.P
	mc := p.Func("tor", "Torrent.MetadataComplete")
	gm := p.Func("tor", "gotMetadata")
	rt := p.Func("tor", "ReadTorrent")
	ic := p.Field("tor", "Torrent", "infoComplete")
	infoF := p.Field("tor", "Torrent", "Info")
	hashF := p.Field("tor", "Torrent", "Hash")
	ib := p.Field("tor", "Torrent", "infoBitmap")
	if !r.Anchor("R1", "tor.(*Torrent).MetadataComplete", mc != nil) || !r.Anchor("R1", "tor.gotMetadata", gm != nil) || !r.Anchor("R1", "tor.ReadTorrent", rt != nil) ||
		!r.Anchor("R1", "tor.Torrent.infoComplete", ic != nil) || !r.Anchor("R1", "tor.Torrent.Info", infoF != nil) || !r.Anchor("R1", "tor.Torrent.Hash", hashF != nil) || !r.Anchor("R1", "tor.Torrent.infoBitmap", ib != nil) {
		return
	}
	atomicWrites(r, "R1", objNamed("tor", "infoComplete"), 1)
	// ---- R1
	for _, acc := range p.fieldAccesses(ic) {
		if !acc.Write && !acc.Addr {
			continue
		}
		// address passed to atomic.StoreUint32 / LoadUint32
		fa := acc.Instr.(*ssa.FieldAddr)
		for _, ref := range *fa.Referrers() {
			switch {
			case isStdCall(ref, "sync/atomic", "", "LoadUint32"):
			case isStdCall(ref, "sync/atomic", "", "StoreUint32"):
				key := "infoComplete-store/" + fname(acc.Fn)
				v, okv := constInt(callArgs(ref)[1])
				r.Check(acc.Fn == mc && okv && v == 1, "R1", key, ref.Pos(), "infoComplete is set (to 1) by MetadataComplete", "Torrent.infoComplete is stored outside MetadataComplete (or with a value other than 1): a second publication point bypasses the hash gate")
			default:
				if _, isLoad := ref.(*ssa.UnOp); isLoad {
					continue
				}
				if _, isd := ref.(*ssa.DebugRef); isd {
					continue
				}
				r.Fail("R1", "infoComplete-access/"+fname(acc.Fn), ref.Pos(), "Torrent.infoComplete is modified or its address escapes in %s", fname(acc.Fn))
			}
		}
	}
	calls, esc := p.callSitesOf(mc)
	for _, e := range esc {
		r.Fail("R1", "MetadataComplete-escapes", e.Pos(), "MetadataComplete is used as a function value")
	}
	for _, cs := range calls {
		f := cs.Parent()
		r.Check(f == gm || f == rt || (relPkg(f) == "tor" && (p.inUnitOf(f, gm) || p.inUnitOf(f, rt))), "R1", "MetadataComplete-caller/"+fname(f), cs.Pos(), "a designated caller of MetadataComplete", "MetadataComplete is called from "+fname(f)+": only ReadTorrent and gotMetadata compute the info-hash of the bytes they publish")
	}
	r.Sentinel("R1", len(calls), 2)
	// ---- R2: hash gate in gotMetadata
	r.Fn(gm)
	// the publication: the call of MetadataComplete in gotMetadata or in a private helper of it (checkMetadata)
	var call ssa.Instruction
	for _, cs := range calls {
		if f := cs.Parent(); f == gm || (relPkg(f) == "tor" && p.inUnitOf(f, gm)) {
			call = cs.(ssa.Instruction)
			r.Fn(f)
		}
	}
	if call == nil {
		r.Fail("R2", "gotMetadata/MetadataComplete-call", gm.Pos(), "gotMetadata no longer calls MetadataComplete")
	} else {
		gated := false
		for _, g := range guardsOf(call.Block()) {
			g = g.norm()
			c, ok := g.Cond.(*ssa.Call)
			if !ok || !g.Pol {
				continue
			}
			cal := c.Call.StaticCallee()
			if cal == nil || cal.Name() != "Equal" || relPkg(cal) != "hash" {
				continue
			}
			a0, a1 := c.Call.Args[0], c.Call.Args[1]
			isSumOfInfo := func(v ssa.Value) bool {
				x, _ := sha1Operand(v, 0)
				if x == nil {
					return false
				}
				fv, _ := loadedField(x)
				return fv == infoF
			}
			isHash := func(v ssa.Value) bool { fv, _ := loadedField(strip(v)); return fv == hashF }
			if (isSumOfInfo(a0) && isHash(a1)) || (isSumOfInfo(a1) && isHash(a0)) {
				gated = true
			}
		}
		r.Check(gated, "R2", "gotMetadata/hash-gate", call.Pos(), "metadata is published only when sha1.Sum(t.Info) equals t.Hash", "the call of MetadataComplete in gotMetadata is not dominated by sha1.Sum(t.Info) == t.Hash: forged metadata becomes the torrent")
		// all blocks present: dominated by the exit edge of a loop whose body returns when a bit is missing
		var allPresentAt func(at ssa.Instruction, depth int) bool
		allPresentAt = func(at ssa.Instruction, depth int) bool {
			allPresent := false
			// (a) a loop that tests infoBitmap.Get(i) for its induction value and leaves the function when a bit is
			// missing, whose completed exit dominates the publication (classic, range and rotated loop shapes alike)
			for _, l := range naturalLoops(at.Parent()) {
				if l.Blocks[at.Block()] {
					continue
				}
				tests := false
				for b := range l.Blocks {
					for _, in := range b.Instrs {
						c, ok := in.(*ssa.Call)
						if !ok {
							continue
						}
						cal := c.Call.StaticCallee()
						if cal == nil || cal.Name() != "Get" || relPkg(cal) != "bitmap" {
							continue
						}
						if fv, _ := loadedField(c.Call.Args[0]); fv != ib {
							continue
						}
						// the argument varies with the loop: a phi of the loop, or derived from one
						varies := false
						var walk func(v ssa.Value, d int)
						walk = func(v ssa.Value, d int) {
							if d > 4 || v == nil {
								return
							}
							if ph, ok := v.(*ssa.Phi); ok && l.Blocks[ph.Block()] {
								varies = true
								return
							}
							if in2, ok := v.(ssa.Instruction); ok {
								for _, op := range in2.Operands(nil) {
									if op != nil && *op != nil {
										walk(*op, d+1)
									}
								}
							}
						}
						walk(c.Call.Args[1], 0)
						if !varies {
							continue
						}
						// the missing-bit edge does not reach the publication
						for _, ref := range *c.Referrers() {
							var iff *ssa.If
							pol := true
							switch x := ref.(type) {
							case *ssa.If:
								iff = x
							case *ssa.UnOp:
								if x.Op == token.NOT {
									for _, r2 := range *x.Referrers() {
										if i2, ok := r2.(*ssa.If); ok {
											iff, pol = i2, false
										}
									}
								}
							}
							if iff == nil {
								continue
							}
							missing := iff.Block().Succs[1]
							if !pol {
								missing = iff.Block().Succs[0]
							}
							if !l.Blocks[missing] && !reachableFrom(missing)[at.Block()] {
								tests = true
							}
						}
					}
				}
				if !tests {
					continue
				}
				for _, x := range l.cleanExits() {
					if x.Dominates(at.Block()) {
						allPresent = true
					}
				}
			}
			// (b) a dominating whole-bitmap test: infoBitmap.All(n) == true, infoBitmap.Count() == n
			for _, g := range guardsOf(at.Block()) {
				g = g.norm()
				var c *ssa.Call
				switch x := g.Cond.(type) {
				case *ssa.Call:
					if g.Pol {
						c = x
					}
				case *ssa.BinOp:
					if op, a, bb, ok := cmpFact(g); ok && (op == token.EQL || op == token.GEQ) {
						if cc, ok := stripIntConv(a).(*ssa.Call); ok {
							c = cc
						} else if cc, ok := stripIntConv(bb).(*ssa.Call); ok && op == token.EQL {
							c = cc
						}
					}
				}
				if c == nil || len(c.Call.Args) == 0 {
					continue
				}
				cal := c.Call.StaticCallee()
				if cal == nil || relPkg(cal) != "bitmap" || (cal.Name() != "All" && cal.Name() != "Count") {
					continue
				}
				if fv, _ := loadedFieldAny(c.Call.Args[0]); fv == ib {
					allPresent = true
				}
			}
			if allPresent || depth > 2 {
				return allPresent
			}
			// (c) a dominating test of a boolean helper that says so (if !haveAllMetadata(t) { return }): every return of
			// the helper that can yield true comes after the complete loop / whole-bitmap test
			for _, g := range guardsOf(at.Block()) {
				g = g.norm()
				c, ok := g.Cond.(*ssa.Call)
				if !ok || !g.Pol || c.Call.IsInvoke() {
					continue
				}
				h := c.Call.StaticCallee()
				if h == nil || h.Blocks == nil || relPkg(h) != "tor" {
					continue
				}
				some, all := false, true
				for _, ret := range returnsOf(h) {
					rv := retResults(ret)
					if len(rv) != 1 {
						all = false
						break
					}
					if b, isb := constBool(rv[0]); isb && !b {
						continue
					}
					some = true
					if !allPresentAt(ret, depth+1) {
						// `return bitmap.All(n)` itself
						ok2 := false
						if cc, isC := rv[0].(*ssa.Call); isC {
							if cal := cc.Call.StaticCallee(); cal != nil && relPkg(cal) == "bitmap" && cal.Name() == "All" && len(cc.Call.Args) > 0 {
								if fv, _ := loadedFieldAny(cc.Call.Args[0]); fv == ib {
									ok2 = true
								}
							}
						}
						if !ok2 {
							all = false
						}
					}
				}
				if some && all {
					return true
				}
			}
			// (d) inside a private helper of gotMetadata: established at every call of it
			f := at.Parent()
			if f != gm && relPkg(f) == "tor" && p.inUnitOf(f, gm) {
				cs2, esc2 := p.callSitesOf(f)
				if len(esc2) == 0 && len(cs2) > 0 {
					okAll := true
					for _, c2 := range cs2 {
						ci, isI := c2.(ssa.Instruction)
						if !isI || !allPresentAt(ci, depth+1) {
							okAll = false
						}
					}
					return okAll
				}
			}
			return false
		}
		allPresent := allPresentAt(call, 0)
		r.Check(allPresent, "R2", "gotMetadata/all-blocks-present", call.Pos(), "the hash is checked only after every block index is present", "the publication is not dominated by the exit of the all-blocks-present loop")
	}
	metadataCoAssign(r, "R2")
	// ---- R3: the copy
	var cp *ssa.Call
	allInstrs(gm, func(in ssa.Instruction) {
		c, ok := in.(*ssa.Call)
		if !ok {
			return
		}
		if bi, ok := c.Call.Value.(*ssa.Builtin); ok && bi.Name() == "copy" {
			if sl, ok := c.Call.Args[0].(*ssa.Slice); ok {
				if fv, _ := loadedField(sl.X); fv == infoF {
					cp = c
				}
			}
		}
	})
	if cp == nil {
		r.Undecided("R3", "gotMetadata/copy", gm.Pos(), "no copy into t.Info found in gotMetadata")
	} else {
		// Each fact is required on every path from the entry of gotMetadata to the copy. It can be established by a
		// branch of gotMetadata itself or inside a validation helper whose error result is tested
		// (checkMetadataBlock(t, index, size, data)): the subjects index/size/data are followed into the helper's
		// parameters.
		subj := []ssa.Value{gm.Params[1], gm.Params[2], gm.Params[3]}
		mentionsInfo := func(v ssa.Value) bool {
			return mentions(v, func(v ssa.Value) bool { fv, _ := loadedField(v); return fv == infoF }, 0)
		}
		reqs := []edgeReq{
			{Name: "size == len(t.Info)", ViaHelper: true, Subj: subj, MatchS: func(sj []ssa.Value, cond ssa.Value, pol bool) bool {
				op, x, y, ok := cmpFact(Guard{Cond: cond, Pol: pol})
				if !ok || op != token.EQL || sj[1] == nil {
					return false
				}
				return (stripIntConv(x) == sj[1] && mentionsInfo(y)) || (stripIntConv(y) == sj[1] && mentionsInfo(x))
			}},
			{Name: "index < number of blocks (strict)", ViaHelper: true, Subj: subj, MatchS: func(sj []ssa.Value, cond ssa.Value, pol bool) bool {
				op, x, y, ok := cmpFact(Guard{Cond: cond, Pol: pol})
				if !ok || sj[0] == nil {
					return false
				}
				return (op == token.LSS && stripIntConv(x) == sj[0]) || (op == token.GTR && stripIntConv(y) == sj[0])
			}},
			{Name: "a branch on len(data)", ViaHelper: true, Subj: subj, MatchS: func(sj []ssa.Value, cond ssa.Value, pol bool) bool {
				if sj[2] == nil {
					return false
				}
				return mentions(cond, func(v ssa.Value) bool { return isLenOf(v, sj[2]) }, 0)
			}},
			{Name: "!infoBitmap.Get(index)", ViaHelper: true, Subj: subj, MatchS: func(sj []ssa.Value, cond ssa.Value, pol bool) bool {
				c, ok := cond.(*ssa.Call)
				if !ok || pol || sj[0] == nil {
					return false
				}
				cal := c.Call.StaticCallee()
				if cal == nil || cal.Name() != "Get" || relPkg(cal) != "bitmap" {
					return false
				}
				fv, _ := loadedField(c.Call.Args[0])
				return fv == ib && stripIntConv(c.Call.Args[1]) == sj[0]
			}},
		}
		reqs = append(reqs, edgeReq{Name: "block length exact", ViaHelper: true, Subj: subj, MatchS: func(sj []ssa.Value, cond ssa.Value, pol bool) bool {
			return c12LengthExact(p, infoF, sj[0], sj[2], cond, pol)
		}})
		miss, reached := pathsMissingEntry(gm, func(in ssa.Instruction) bool { return in == ssa.Instruction(cp) }, nil, reqs)
		missing := map[string]bool{}
		for _, m := range miss {
			missing[m] = true
		}
		if reached == 0 {
			r.Undecided("R3", "gotMetadata/copy-reachable", cp.Pos(), "the copy into t.Info is not reachable from the entry of gotMetadata")
		}
		r.Check(!missing[reqs[0].Name], "R3", "gotMetadata/size==len(Info)", cp.Pos(), "every path to the copy tests size == len(t.Info)", "the copy into the metadata buffer is not preceded on every path by the announced size matching the buffer")
		r.Check(!missing[reqs[1].Name], "R3", "gotMetadata/index<chunks", cp.Pos(), "every path to the copy tests index < number of blocks (strict)", "the copy is not preceded on every path by a strict upper bound on the block index (index == count slices past the end when the size is not a multiple of 16 KiB)")
		r.Check(!missing[reqs[2].Name], "R3", "gotMetadata/block-length-guard", cp.Pos(), "every path to the copy branches on len(data)", "no guard on the block length precedes the copy into the metadata buffer")
		r.Check(!missing[reqs[4].Name], "R3", "gotMetadata/block-length-exact", cp.Pos(), "every path to the copy established that the block is 16 KiB long or ends exactly at the end of the metadata",
			"a path reaches the copy without having established len(data) == 16384 or index*16384+len(data) == len(t.Info) (in one of the forms the rule can prove: the equalities themselves, len(data) == min(16384, len(Info)-index*16384), or len(Info) % 16384 for the last block where that remainder is non-zero): a short block in the middle is accepted, or the honest last block of a metadata whose size is a multiple of 16 KiB is refused and the download never completes")
		r.Check(!missing[reqs[3].Name], "R3", "gotMetadata/not-already-present", cp.Pos(), "a block already present is not overwritten", "the copy is not preceded on every path by !infoBitmap.Get(index): a later forged duplicate overwrites an honest block")
	}
	// allocations: make([]byte, size) / votes under the 1..128MiB check
	env := &IntEnv{}
	n := 0
	for _, name := range []string{"resizeMetadata", "metadataVote"} {
		f := p.Func("tor", name)
		if !r.Anchor("R3", "tor."+name, f != nil) {
			continue
		}
		r.Fn(f)
		size := f.Params[1]
		allInstrs(f, func(in ssa.Instruction) {
			uses := false
			switch x := in.(type) {
			case *ssa.MakeSlice:
				uses = mentions(x.Len, func(v ssa.Value) bool { return v == ssa.Value(size) }, 0)
			case *ssa.MapUpdate:
				uses = x.Key == ssa.Value(size)
			}
			if !uses {
				return
			}
			n++
			iv := env.At(size, in.Block())
			key := fmt.Sprintf("%s/size-bounded", name)
			r.Check(iv.Lo >= 1 && iv.Hi <= 128*1024*1024, "R3", key, in.Pos(), "announced metadata size in "+iv.String()+" here", "the announced metadata size is only known to be in "+iv.String()+" where it sizes memory / is recorded as a vote (1..128 MiB required)")
		})
	}
	r.Sentinel("R3.alloc", n, 3)
	// the per-block table has ceil(size / 16 KiB) entries — the number of blocks an honest peer serves. size/16K + 1
	// expects one block too many whenever the dictionary is an exact multiple of 16 KiB: it never completes.
	if rm := p.Func("tor", "resizeMetadata"); rm != nil {
		nB := 0
		// wherever the per-block table (Torrent.infoRequested) is made: resizeMetadata, or a helper it shares with
		// the reset paths
		for _, bf := range p.SrcFuncs() {
			if relPkg(bf) != "tor" {
				continue
			}
			allInstrs(bf, func(in ssa.Instruction) {
				ms, ok := in.(*ssa.MakeSlice)
				if !ok {
					return
				}
				if bf != rm {
					toTable := false
					for _, ref := range *ms.Referrers() {
						if st, isSt := ref.(*ssa.Store); isSt && st.Val == ssa.Value(ms) {
							if fa, isFA := st.Addr.(*ssa.FieldAddr); isFA && fieldVar(fa) != nil && fieldVar(fa).Name() == "infoRequested" {
								toTable = true
							}
						}
					}
					if !toTable {
						return
					}
					r.Fn(bf)
				}
				kind, num, den := divFormOf(ms.Len)
				if os.Getenv("STORDEBUG") != "" {
					fmt.Fprintf(os.Stderr, "c12 blocks: %s make len=%s kind=%v num=%v\n", fname(bf), exprStr(ms.Len), kind, num)
				}
				if kind == divOther || num == nil {
					// a helper computing the count (metadataChunks(size)): look at what it returns
					if c, isC := stripIntConv(ms.Len).(*ssa.Call); isC {
						if h := c.Call.StaticCallee(); h != nil && h.Blocks != nil && relPkg(h) == "tor" {
							for _, ret := range returnsOf(h) {
								kind, num, den = divFormOf(retResults(ret)[0])
							}
						}
					}
				}
				if kind == divOther {
					return // the buffer itself (make([]byte, size)), not a count
				}
				nB++
				k, _ := constInt(den)
				r.Check(kind == divCeil && k == 16*1024, "R3", "resizeMetadata/block-count-is-ceil", ms.Pos(), "one slot per started 16 KiB of metadata (ceil)",
					fmt.Sprintf("the number of metadata blocks is computed as %s (%s): when the info dictionary is an exact multiple of 16 KiB the client waits for a block no honest peer has, and the metadata never completes", exprStr(ms.Len), kind))
			})
		}
		r.Sentinel("R3.blocks", nB, 1)
	}
	// ---- R4
	c13R1(r, "R4")
	_ = types.Typ
	c12Exposure(r)
}

// c12LengthExact: the branch (cond, pol) establishes that the block length L = len(data) is exact for block i = index of
// a metadata of n = len(t.Info) bytes: L == K, or i*K + L == n (K = 16384), in a form that can be proved by polynomial
// identity plus two small lemmas: min(K, n-i*K) is one of the two; n % K is n - i*K when i is the last block and the
// remainder is non-zero.
func c12LengthExact(p *Prog, infoF *types.Var, index, data ssa.Value, cond ssa.Value, pol bool) bool {
	const K = 16384
	if index == nil || data == nil {
		return false
	}
	op, x, y, ok := cmpFact(Guard{Cond: cond, Pol: pol})
	if !ok || op != token.EQL {
		return false
	}
	isN := func(v ssa.Value) bool {
		c, ok := v.(*ssa.Call)
		if !ok {
			return false
		}
		bi, okb := c.Call.Value.(*ssa.Builtin)
		if !okb || bi.Name() != "len" {
			return false
		}
		fv, _ := loadedField(c.Call.Args[0])
		return fv == infoF
	}
	// canonical polynomial over the atoms L, i, n
	canon := func(v ssa.Value) (map[string]int64, bool) {
		pl := polyOf(v, 0)
		if !pl.ok {
			return nil, false
		}
		out := map[string]int64{}
		for mono, c := range pl.t {
			var parts []string
			if mono != "" {
				for _, a := range strings.Split(mono, "*") {
					av := pl.at[a]
					switch {
					case av != nil && isLenOf(av, data):
						parts = append(parts, "L")
					case av != nil && isN(av):
						parts = append(parts, "n")
					case av != nil && stripIntConv(av) == index:
						parts = append(parts, "i")
					default:
						parts = append(parts, a)
					}
				}
			}
			sort.Strings(parts)
			out[strings.Join(parts, "*")] += c
		}
		for k, c := range out {
			if c == 0 {
				delete(out, k)
			}
		}
		return out, true
	}
	sub := func(a, b map[string]int64) map[string]int64 {
		out := map[string]int64{}
		for k, c := range a {
			out[k] += c
		}
		for k, c := range b {
			out[k] -= c
		}
		for k, c := range out {
			if c == 0 {
				delete(out, k)
			}
		}
		return out
	}
	equalsUpToSign := func(d map[string]int64, want map[string]int64) bool {
		for _, sg := range []int64{1, -1} {
			okk := len(d) == len(want)
			for k, c := range want {
				if d[k] != sg*c {
					okk = false
				}
			}
			if okk {
				return true
			}
		}
		return false
	}
	// the whole comparison is one of the two equalities
	if px, ok1 := canon(x); ok1 {
		if py, ok2 := canon(y); ok2 {
			d := sub(px, py)
			if equalsUpToSign(d, map[string]int64{"L": 1, "": -K}) || equalsUpToSign(d, map[string]int64{"L": 1, "i": K, "n": -1}) {
				return true
			}
		}
	}
	// L == e with e exact
	var e ssa.Value
	switch {
	case isLenOf(stripIntConv(x), data):
		e = y
	case isLenOf(stripIntConv(y), data):
		e = x
	default:
		return false
	}
	var exact func(e ssa.Value, gs []Guard, d int) bool
	exact = func(e ssa.Value, gs []Guard, d int) bool {
		if d > 6 {
			return false
		}
		e = stripIntConv(e)
		if pe, ok := canon(e); ok {
			if equalsUpToSign(sub(pe, map[string]int64{"": K}), map[string]int64{}) && len(sub(pe, map[string]int64{"": K})) == 0 {
				return true
			}
			if len(sub(pe, map[string]int64{"n": 1, "i": -K})) == 0 {
				return true
			}
		}
		switch x := e.(type) {
		case *ssa.Call:
			if bi, ok := x.Call.Value.(*ssa.Builtin); ok && bi.Name() == "min" {
				for _, a := range x.Call.Args {
					if !exact(a, gs, d+1) {
						return false
					}
				}
				return len(x.Call.Args) > 0
			}
		case *ssa.Phi:
			for k, ed := range x.Edges {
				if !exact(ed, guardsOnEdge(x.Block().Preds[k], x.Block()), d+1) {
					return false
				}
			}
			return len(x.Edges) > 0
		case *ssa.BinOp:
			if x.Op != token.REM {
				return false
			}
			if k, okk := constInt(x.Y); !okk || k != K || !isN(stripIntConv(x.X)) {
				return false
			}
			// lemma: for the last block (i == count-1, count = number of blocks) and n % K != 0, n % K == n - i*K
			nonZero, last := false, false
			for _, g := range gs {
				op2, a, b, ok2 := cmpFact(g)
				if !ok2 {
					continue
				}
				if op2 == token.NEQ || op2 == token.GTR {
					if z, okz := constInt(b); okz && z == 0 {
						if aa := stripIntConv(a); aa == ssa.Value(x) {
							nonZero = true
						} else if r2, okr := aa.(*ssa.BinOp); okr && r2.Op == token.REM && isN(stripIntConv(r2.X)) {
							if k2, okk2 := constInt(r2.Y); okk2 && k2 == K {
								nonZero = true
							}
						}
					}
				}
				if op2 == token.EQL {
					pa, ok3 := canon(a)
					pb, ok4 := canon(b)
					if !ok3 || !ok4 {
						continue
					}
					dd := sub(pa, pb)
					// i - count + 1 == 0 where count is any single other atom (the block count)
					if len(dd) == 3 && (dd["i"] == 1 || dd["i"] == -1) && dd[""] == dd["i"] {
						for k3, c3 := range dd {
							if k3 != "i" && k3 != "" && c3 == -dd["i"] && !strings.Contains(k3, "*") {
								last = true
							}
						}
					}
				}
			}
			return nonZero && last
		}
		return false
	}
	var gs []Guard
	if ci, ok := cond.(ssa.Instruction); ok && ci.Block() != nil {
		gs = guardsOf(ci.Block())
	}
	return exact(e, gs, 0)
}

// c12Exposure: Torrent.Info doubles as the assembly buffer of a magnet download: it is allocated at the size a peer
// announced and filled block by block before anything is hashed. Outside package tor it may be looked at — directly, or
// through tor.WriteTorrent, which re-emits it — only behind InfoComplete() == true. `t.Info != nil` is not that test.
func c12Exposure(r *Report) {
	p := r.P
	infoF := p.Field("tor", "Torrent", "Info")
	icF := p.Func("tor", "Torrent.InfoComplete")
	wt := p.Func("tor", "WriteTorrent")
	if !r.Anchor("R1", "tor.Torrent.Info/InfoComplete/WriteTorrent", infoF != nil && icF != nil && wt != nil) {
		return
	}
	isComplete := func(g Guard) bool {
		c, ok := g.Cond.(*ssa.Call)
		return ok && g.Pol && c.Call.StaticCallee() == icF
	}
	n := 0
	for _, acc := range p.fieldAccesses(infoF) {
		f := enclosingNamed(acc.Fn)
		if relPkg(f) == "tor" || strings.HasPrefix(relPkg(f), "tor/") {
			continue
		}
		n++
		r.Fn(f)
		in := acc.Instr
		r.Check(p.factHolds(in, isComplete, 0), "R1", fname(acc.Fn)+"/Torrent.Info-only-when-complete", in.Pos(), "Torrent.Info is looked at outside package tor only behind InfoComplete()",
			"Torrent.Info is accessed in "+fname(acc.Fn)+" on a path not dominated by InfoComplete() == true: before the hash check it is the zero-filled assembly buffer of a size a peer chose, holding whatever blocks peers pushed — a forged dictionary can be served under the torrent's hash")
	}
	calls, _ := p.callSitesOf(wt)
	for _, cs := range calls {
		f := enclosingNamed(cs.Parent())
		if relPkg(f) == "tor" {
			continue
		}
		n++
		r.Fn(f)
		in := cs.(ssa.Instruction)
		r.Check(p.factHolds(in, isComplete, 0), "R1", fname(cs.Parent())+"/WriteTorrent-only-when-complete", cs.Pos(), "the .torrent is re-emitted only behind InfoComplete()",
			"tor.WriteTorrent is called from "+fname(cs.Parent())+" on a path not dominated by InfoComplete() == true: it re-emits Torrent.Info, which before the hash check is the assembly buffer that peers fill — the web interface would serve unauthenticated (forged) metadata under the torrent's hash")
	}
	r.Sentinel("R1.exposure", n, 1)
	// the votes for the metadata size only grow: a size that honest peers voted for must stay eligible however many
	// forged assemblies fail (metadataGuess ignores sizes whose count is not positive)
	votes := p.Field("tor", "Torrent", "infoSizeVotes")
	if r.Anchor("R3", "tor.Torrent.infoSizeVotes", votes != nil) {
		nV := 0
		for _, f := range p.SrcFuncs() {
			if relPkg(f) != "tor" {
				continue
			}
			allInstrs(f, func(in ssa.Instruction) {
				mu, ok := in.(*ssa.MapUpdate)
				if !ok {
					return
				}
				if fv, _ := loadedField(mu.Map); fv != votes {
					return
				}
				nV++
				r.Fn(f)
				okInc := false
				if bo, isB := mu.Value.(*ssa.BinOp); isB && bo.Op == token.ADD {
					if k, okk := constInt(bo.Y); okk && k > 0 {
						okInc = true
					}
				}
				if k, okk := constInt(mu.Value); okk && k > 0 {
					okInc = true
				}
				r.Check(okInc, "R3", fname(f)+"/size-votes-only-grow", mu.Pos(), "a vote for a metadata size is only ever added",
					"a vote count for a metadata size is decreased (or overwritten): after enough forged assemblies the size honest peers agree on has a non-positive count, metadataGuess never picks it again, and honest blocks are refused as having an inconsistent size — the download cannot complete after the last corruption")
			})
		}
		r.Sentinel("R3.votes", nV, 1)
		// … and are dropped only once the metadata is complete: votes are cast when a peer's extended handshake arrives,
		// never again for the peers already connected. A failed assembly (hash mismatch, a dictionary MetadataComplete
		// refuses) that also drops the votes leaves metadataGuess without a size: nothing is requested any more.
		mcF := p.Func("tor", "Torrent.MetadataComplete")
		icF := p.Func("tor", "Torrent.InfoComplete")
		var completed func(g Guard) bool
		// okVal: v == nil implies that MetadataComplete() returned nil — v is its result, or something that is never
		// nil (errors.New(…)), or a phi / the result of a helper of the package all of whose sources are such
		var okVal func(v ssa.Value, at *ssa.BasicBlock, d int) bool
		okVal = func(v ssa.Value, at *ssa.BasicBlock, d int) bool {
			if d > 4 || v == nil {
				return false
			}
			if isNilConst(v) {
				if at != nil {
					for _, g := range guardsOf(at) {
						if completed(g) {
							return true
						}
					}
				}
				return false
			}
			switch x := v.(type) {
			case *ssa.Phi:
				for i, e := range x.Edges {
					if i >= len(x.Block().Preds) || !okVal(e, x.Block().Preds[i], d+1) {
						return false
					}
				}
				return true
			case *ssa.MakeInterface:
				return true
			case *ssa.UnOp:
				if _, isG := x.X.(*ssa.Global); isG {
					return true // a package-level error value
				}
			}
			c, idx := callOfValue(v)
			if c == nil || c.Call.IsInvoke() {
				return false
			}
			if isStdCall(c, "errors", "", "New") || isStdCall(c, "fmt", "", "Errorf") {
				return true
			}
			h := c.Call.StaticCallee()
			if h == nil {
				return false
			}
			if h == mcF {
				return true
			}
			if h.Blocks == nil || relPkg(h) != "tor" {
				return false
			}
			for _, ret := range returnsOf(h) {
				res := retResults(ret)
				if idx >= len(res) || !okVal(res[idx], ret.Block(), d+1) {
					return false
				}
			}
			return true
		}
		completed = func(g Guard) bool {
			if x, isNil, ok := nilFact(g); ok && isNil && mcF != nil {
				if okVal(x, nil, 0) {
					return true
				}
			}
			g = g.norm()
			if c, ok := g.Cond.(*ssa.Call); ok && g.Pol && icF != nil && c.Call.StaticCallee() == icF {
				return true
			}
			return false
		}
		lazy := func(in ssa.Instruction) bool {
			// if t.infoSizeVotes == nil { t.infoSizeVotes = make(…) }
			for _, g := range guardsOf(in.Block()) {
				if x, isNil, ok := nilFact(g); ok && isNil {
					if fv, _ := loadedField(x); fv == votes {
						return true
					}
				}
			}
			return false
		}
		nD := 0
		for _, f := range p.SrcFuncs() {
			if relPkg(f) != "tor" {
				continue
			}
			allInstrs(f, func(in ssa.Instruction) {
				drop := false
				switch x := in.(type) {
				case *ssa.Store:
					if fa, ok := x.Addr.(*ssa.FieldAddr); ok && fieldVar(fa) == votes && !lazy(in) {
						drop = true
					}
				case *ssa.Call:
					if bi, ok := x.Call.Value.(*ssa.Builtin); ok && (bi.Name() == "clear" || bi.Name() == "delete") && len(x.Call.Args) > 0 {
						if fv, _ := loadedField(x.Call.Args[0]); fv == votes {
							drop = true
						}
					}
				}
				if !drop {
					return
				}
				nD++
				r.Fn(f)
				r.Check(p.factHolds(in, completed, 0), "R3", fname(f)+"/size-votes-dropped-only-when-complete", in.Pos(), "the size votes are dropped only behind a successful MetadataComplete()",
					"the votes for the metadata size are dropped on a way on which the metadata has not been completed (a failed assembly): votes are only cast when a peer's extended handshake arrives, so with the same peers metadataGuess has no size any more, nothing is requested and every honest block is refused — the download cannot complete after a corruption")
			})
		}
		r.Sentinel("R3.vote-drops", nD, 1)
	}
}
