#!/bin/sh
# Build the static checker offline from files on disk only.
set -e
cd "$(dirname "$0")"
export GOFLAGS=-mod=mod GOPROXY=off GOSUMDB=off GOTOOLCHAIN=local GOWORK=off
mkdir -p bin evidence
cd checker
go build -o ../bin/storcheck .
