#!/bin/sh
# usage: check.sh <property> <quick|thorough>
# Rebuilds nothing from a cache of results: storcheck loads and type-checks /repo's working tree on every run.
cd "$(dirname "$0")"
export GOFLAGS=-mod=mod GOPROXY=off GOSUMDB=off GOTOOLCHAIN=local GOWORK=off
if [ ! -x bin/storcheck ] || [ -n "$(find checker -name '*.go' -newer bin/storcheck 2>/dev/null | head -1)" ]; then ./setup.sh >&2 || { echo "setup failed" >&2; exit 2; }; fi
exec ./bin/storcheck -prop "$1" -tier "${2:-quick}" -repo /repo -verif "$(pwd)"
