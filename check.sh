#!/bin/sh
# usage: check.sh <property> <quick|thorough>
# Rebuilds nothing from a cache of results: storcheck loads and type-checks /repo's working tree on every run.
cd "$(dirname "$0")"
export GOFLAGS=-mod=mod GOPROXY=off GOSUMDB=off GOTOOLCHAIN=local GOWORK=off
[ -x bin/storcheck ] || ./setup.sh >/dev/null 2>&1 || { echo "setup failed"; exit 2; }
exec ./bin/storcheck -prop "$1" -tier "${2:-quick}" -repo /repo -verif "$(pwd)"
