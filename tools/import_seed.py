#!/usr/bin/env python3
"""usage: import_seed.py <prop> <A|B> <demo-target-dir> <test-regex> <confirmed-line>
Copies a confirmed seeded change from /tmp/wt/out-<prop>/<X>/ to /verif/seeded/<prop>-<X>/ with meta.json."""
import sys, os, shutil, json, glob, subprocess
prop, x, tdir, run, confirmed = sys.argv[1:6]
src = "/tmp/wt/out-%s/%s" % (prop, x)
dst = "/verif/seeded/%s-%s" % (prop, x)
os.makedirs(dst + "/demo", exist_ok=True)
shutil.copy(src + "/patch.diff", dst + "/patch.diff")
if os.path.exists(src + "/notes.md"): shutil.copy(src + "/notes.md", dst + "/notes.md")
demos = []
for f in glob.glob(src + "/demo/**/*.go", recursive=True):
    # demo files are stored with a .txt suffix so that nothing under /verif is picked up as Go source
    shutil.copy(f, dst + "/demo/" + os.path.basename(f) + ".txt"); demos.append(os.path.basename(f))
head = subprocess.run(["git","-C","/repo","rev-parse","--short","HEAD"],capture_output=True,text=True).stdout.strip()
notes = open(src + "/notes.md").read() if os.path.exists(src + "/notes.md") else ""
meta = {
  "property": prop, "variant": x,
  "origin": "independent sub-agent given only the property record and a scratch worktree of /repo (nothing from /verif)",
  "demo_files": demos, "demo_target_dir": tdir, "demo_run": "go test -vet=off -count=1 -run '%s' ./%s/" % (run, tdir),
  "confirmed_at_repo_head": head,
  "what_i_ran": "tools/confirm_seed.sh /tmp/wt/out-%s/%s %s-%s %s '%s' (scratch worktree of /repo HEAD: demo passes unmodified, patch applies, full suite passes with patch, demo fails with patch)" % (prop,x,prop,x,tdir,run),
  "result": confirmed,
  "needs_to_manifest": "see notes.md (section on what is needed for it to manifest)",
  "detected_by": [], "missed_by": []
}
json.dump(meta, open(dst + "/meta.json", "w"), indent=1)
print("imported", dst)
