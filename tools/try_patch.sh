#!/bin/sh
# usage: tools/try_patch.sh <patch.diff> <prop> [<prop>...]
# Applies the patch to a scratch copy of /repo (outside /repo and /verif), runs the given checks
# against the copy, prints their verdicts, removes the copy. Never touches /repo.
set -u
patch=$(realpath "$1"); shift
V=$(cd "$(dirname "$0")/.." && pwd)
export GOFLAGS=-mod=mod GOPROXY=off GOSUMDB=off GOTOOLCHAIN=local GOWORK=off
tmp=$(mktemp -d /tmp/storvar.XXXXXX)
trap 'rm -rf "$tmp"' EXIT
mkdir -p "$tmp/repo" "$tmp/verif"
rsync -a --exclude .git /repo/ "$tmp/repo/"
cp "$V/known_findings.json" "$tmp/verif/"
if ! (cd "$tmp/repo" && patch -p1 -s --no-backup-if-mismatch < "$patch"); then echo "PATCH-DOES-NOT-APPLY $patch"; exit 3; fi
if ! (cd "$tmp/repo" && go build ./... 2>"$tmp/build.err"); then echo "VARIANT-DOES-NOT-BUILD"; head -5 "$tmp/build.err"; exit 4; fi
rc=0
for p in "$@"; do
  out=$("$V/bin/storcheck" -prop "$p" -tier quick -repo "$tmp/repo" -verif "$tmp/verif" 2>&1)
  if echo "$out" | grep -q "^VIOLATION"; then
    echo "== $p: DETECTED"; echo "$out" | grep -v "^storcheck\|^VIOLATION\|^KNOWN-FINDING" | cut -c1-330 | head -8
  else
    echo "== $p: silent"; rc=1
  fi
done
exit $rc
