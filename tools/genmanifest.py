#!/usr/bin/env python3
"""Regenerates /verif/MANIFEST.json from tools/claims.json (the per-property claim table)."""
import json, os, sys
root = os.path.dirname(os.path.dirname(os.path.abspath(__file__)))
claims = json.load(open(os.path.join(root, "tools", "claims.json")))
props = [json.loads(l) for l in open(os.path.join(root, "properties.jsonl"))]
baseline = json.load(open("/root/.vp/BASELINE.json"))["cmd"] if os.path.exists("/root/.vp/BASELINE.json") else "cd /repo && go test -vet=off -count=1 ./..."
checks, na = [], []
for p in props:
    pid = p["id"]
    c = claims.get(pid)
    if not c or not c.get("claimed"):
        na.append({"property_id": pid, "reason": (c or {}).get("reason", "no static rule built yet for this property in this commit")})
        continue
    checks.append({
        "property_id": pid,
        "quick_cmd": "./check.sh %s quick" % pid,
        "thorough_cmd": "./check.sh %s thorough" % pid,
        "evidence_file": "/verif/evidence/%s.json" % pid,
        "replay_cmd_template": "./check.sh %s quick  # re-evaluates the obligations listed in {path} on the current tree" % pid,
        "engine": "storcheck",
        "level_claimed": {"category": "other", "text": c["text"], "design_ref": "DESIGN.md §4 " + pid},
        "level_note": c["note"],
        "technique": c["technique"],
    })
m = {
    "version": 1,
    "setup_cmd": "./setup.sh",
    "hooks": {"guard": "verif", "enable": "none needed: nothing is executed, the checker reads /repo's source (no build-tagged hooks were added)",
              "baseline_off_cmd": baseline, "source_commits": [], "add_only": True},
    "engines": [{"name": "storcheck", "path": "/verif/checker", "serves_properties": [c["property_id"] for c in checks],
                 "kind_free_text": "repository-specific static analyser (go/packages + go/types + go/ssa + CHA/VTA call graph, x/tools v0.29.0): guard dominance (also through private helpers, callers and validator outcomes), must-pass-through path exploration, lockset and re-validation dataflow, who-may-call/touch and goroutine confinement, channel-operation inventory and exit timelines, nilness, intervals, polynomial/division forms, affine effects, exhaustiveness/sibling tables and symbolic wire layout, field-sensitive taint-to-sink with container/channel carriers, escape analysis, bit provenance"}],
    "checks": checks,
    "not_applicable": na,
    "notes": "Technique family: static analysis only. Every check loads and type-checks /repo's working tree on each run and decides structural necessary conditions of the property (level 'other'); what is not decided is stated per check in level_note and in DESIGN.md. quick = default build (linux/amd64, cgo); thorough = the same rules re-evaluated under CGO_ENABLED=0, GOARCH=386 and GOOS=windows as well, one process per variant, followed by the checker's self-test (every breaking patch of variants/ and seeded/ for the property must fire, every behaviour-preserving patch of benign/ must stay silent; run on scratch copies outside /repo and /verif, reported in the evidence, never affecting the exit status). RULES.md lists every obligation evaluated on the current tree. Genuine defects repaired in /repo are 'fix:' commits listed in known_findings.json.",
}
json.dump(m, open(os.path.join(root, "MANIFEST.json"), "w"), indent=1)
print("MANIFEST: %d checks, %d not_applicable" % (len(checks), len(na)))
