#!/usr/bin/env python3
"""usage: import_seed2.py <prop> <X> "<confirmed line>"   (round-2 layout, from /tmp/wt/out-<prop>r/<X>/)"""
import sys, os, shutil, json, glob, subprocess
prop, x, confirmed = sys.argv[1:4]
src = sys.argv[4] if len(sys.argv) > 4 else "/tmp/wt/out-%sr/%s" % (prop, x)
dst = "/verif/seeded/%s-%s" % (prop, x)
os.makedirs(dst + "/demo", exist_ok=True)
shutil.copy(src + "/patch.diff", dst + "/patch.diff")
if os.path.exists(src + "/notes.md"): shutil.copy(src + "/notes.md", dst + "/notes.md")
demos = []
for f in [g for g in glob.glob(src + "/demo/**/*", recursive=True) if os.path.isfile(g)]:
    rel = os.path.relpath(f, src + "/demo")
    os.makedirs(os.path.dirname(dst + "/demo/" + rel) or ".", exist_ok=True)
    # stored with a .txt suffix so that nothing under /verif is picked up as Go source
    shutil.copy(f, dst + "/demo/" + rel + ".txt"); demos.append(rel)
head = subprocess.run(["git","-C","/repo","rev-parse","--short","HEAD"],capture_output=True,text=True).stdout.strip()
meta = {
  "property": prop, "variant": x, "round": int(os.environ.get("ROUND", "2")),
  "origin": "independent sub-agent given only the property record and a scratch worktree of /repo (nothing from /verif); " + {"3": "round 3 asked for one value-level slip (G) and one structure-level slip (H)", "4": "round 4 asked for one addition made in good faith (I) and one change outside the anchored files (J)", "5": "round 5 asked for one concurrency or ordering slip (K) and one misuse of an API contract (L)", "6": "round 6 asked for one error-path or partial-failure slip (M)"}.get(os.environ.get("ROUND", "2"), "round 2 asked for three changes away from the most obvious site"),
  "demo_files": demos, "demo_layout": "demo/<path in tree>/<file>.txt -> copy to <path in tree>/<file>",
  "confirmed_at_repo_head": head,
  "what_i_ran": "tools/confirm_seed2.sh /tmp/wt/out-%sr/%s %s-%s (scratch worktree of /repo HEAD: demo passes unmodified, patch applies, full suite passes with patch, demo fails with patch)" % (prop,x,prop,x),
  "result": confirmed,
  "needs_to_manifest": "see notes.md (section on what is needed for it to manifest)",
  "detected_by": [], "missed_by": []
}
json.dump(meta, open(dst + "/meta.json", "w"), indent=1)
print("imported", dst)
