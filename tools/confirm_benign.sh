#!/bin/sh
# usage: confirm_benign.sh <dir-with-patch.diff> <name>
# Fresh scratch worktree of /repo HEAD (outside /repo and /verif): patch applies, builds, full suite passes. Removes the worktree.
set -u
d=$1; name=$2
export GOFLAGS=-mod=mod GOPROXY=off GOSUMDB=off GOTOOLCHAIN=local GOWORK=off
wt=$(mktemp -d /tmp/storbenign.XXXXXX)
cleanup() { git -C /repo worktree remove --force "$wt" >/dev/null 2>&1; rm -rf "$wt"; }
trap cleanup EXIT
rmdir "$wt"; git -C /repo worktree add -q --detach "$wt" HEAD || exit 9
cd "$wt"
if ! git apply "$d/patch.diff" 2>/dev/null; then echo "NOT-CONFIRMED $name: patch does not apply"; exit 1; fi
if go build ./... >/tmp/wt/benign-$name.log 2>&1 && go test -vet=off -count=1 ./... >>/tmp/wt/benign-$name.log 2>&1; then echo "CONFIRMED $name (applies at $(git -C /repo rev-parse --short HEAD), builds, suite passes)"; else echo "NOT-CONFIRMED $name see /tmp/wt/benign-$name.log"; fi
