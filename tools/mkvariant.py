#!/usr/bin/env python3
"""usage: mkvariant.py <name> <file> <old> <new> [<file2> <old2> <new2> ...]
Writes variants/<name>.diff: a unified diff against /repo's current tree replacing the single occurrence of old by new."""
import sys, difflib, os
name=sys.argv[1]; args=sys.argv[2:]
out=[]
for i in range(0,len(args),3):
    f,old,new=args[i:i+3]
    old=old.encode().decode('unicode_escape'); new=new.encode().decode('unicode_escape')
    s=open('/repo/'+f).read()
    n=s.count(old)
    if n!=1: sys.exit("%s: %d occurrences of %r in %s"%(name,n,old,f))
    t=s.replace(old,new)
    out+=list(difflib.unified_diff(s.splitlines(True),t.splitlines(True),'a/'+f,'b/'+f))
root=os.path.dirname(os.path.dirname(os.path.abspath(__file__)))
open(os.path.join(root,'variants',name+'.diff'),'w').write(''.join(out))
print("wrote variants/%s.diff (%d lines)"%(name,len(out)))
