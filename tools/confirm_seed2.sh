#!/bin/sh
# usage: confirm_seed2.sh <outdir> <name> [extra go test flags]
# Round-2 layout: <outdir>/patch.diff, <outdir>/demo/<path-in-tree>/<file>_test.go
# Confirms in a scratch worktree of /repo HEAD (outside /repo and /verif): demo passes on the unmodified tree,
# patch applies, full suite passes with the patch, demo fails with the patch. Removes the worktree.
set -u
out=$1; name=$2; shift 2
export GOFLAGS=-mod=mod GOPROXY=off GOSUMDB=off GOTOOLCHAIN=local GOWORK=off
wt=$(mktemp -d /tmp/storconfirm.XXXXXX)
log=/tmp/wt/confirm-$name.log
mkdir -p /tmp/wt
cleanup() { git -C /repo worktree remove --force "$wt" >/dev/null 2>&1; rm -rf "$wt"; }
trap cleanup EXIT
rmdir "$wt"; git -C /repo worktree add -q --detach "$wt" HEAD || exit 9
: > "$log"
pkgs=""; funcs=""
for f in $(cd "$out/demo" && find . -type f | sed 's#^\./##'); do
  d=$(dirname "$f")
  mkdir -p "$wt/$d"; cp "$out/demo/$f" "$wt/$f"
  case "$f" in *_test.go) ;; *) continue;; esac
  case " $pkgs " in *" ./$d/ "*) ;; *) pkgs="$pkgs ./$d/";; esac
  for t in $(grep -ho '^func Test[A-Za-z0-9_]*' "$out/demo/$f" | sed 's/func //'); do funcs="$funcs|$t"; done
done
run="^(${funcs#|})\$"
cd "$wt"
echo "## demo on unmodified tree: $pkgs -run $run" >>"$log"
if go test -vet=off -count=1 -timeout 300s -run "$run" "$@" $pkgs >>"$log" 2>&1; then base=pass; else base=fail; fi
if ! git apply "$out/patch.diff" 2>>"$log"; then
  if ! patch -p1 -s --no-backup-if-mismatch < "$out/patch.diff" >>"$log" 2>&1; then echo "NOT-CONFIRMED $name: patch does not apply"; exit 1; fi
fi
echo "## demo with patch" >>"$log"
if go test -vet=off -count=1 -timeout 300s -run "$run" "$@" $pkgs >>"$log" 2>&1; then mut=pass; else mut=fail; fi
for f in $(cd "$out/demo" && find . -type f | sed 's#^\./##'); do rm -f "$wt/$f"; done
echo "## full suite with patch" >>"$log"
if go build ./... >>"$log" 2>&1 && go test -vet=off -count=1 ./... >>"$log" 2>&1; then suite=pass; else suite=fail; fi
if [ $base = pass ] && [ $mut = fail ] && [ $suite = pass ]; then echo "CONFIRMED $name (demo $pkgs -run '$run': unmodified=$base patched=$mut; suite with patch=$suite)"; else echo "NOT-CONFIRMED $name (demo: unmodified=$base patched=$mut; suite with patch=$suite) see $log"; fi
