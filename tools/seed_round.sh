#!/bin/sh
# usage: seed_round.sh <template-name> <suffix> <prop-id>...
# Creates /tmp/wt/<id><suffix> (a detached scratch worktree of /repo HEAD), /tmp/wt/out-<id><suffix>/ and
# /tmp/wt/prompt-<id><suffix>.txt from tools/prompts/<template>.tmpl. The agent is given only that prompt
# (property record + worktree path); nothing from /verif.
t=$1; suf=$2; shift 2
mkdir -p /tmp/wt
for id in "$@"; do
  git -C /repo worktree add -q --detach /tmp/wt/$id$suf HEAD || exit 1
  mkdir -p /tmp/wt/out-$id$suf
  python3 - "$t" "$id" "$suf" <<'PY'
import sys, json
t, pid, suf = sys.argv[1:4]
prop = None
for line in open('/verif/properties.jsonl'):
    d = json.loads(line)
    if d.get('id') == pid: prop = d
assert prop, pid
txt = open('/verif/tools/prompts/%s.tmpl' % t).read().replace('@ID@', pid + suf).replace('@PROP@', json.dumps(prop, indent=1))
open('/tmp/wt/prompt-%s%s.txt' % (pid, suf), 'w').write(txt)
PY
done
git -C /repo worktree list | wc -l
