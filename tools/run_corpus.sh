#!/bin/sh
# usage: tools/run_corpus.sh <patch.diff>...      (parallel; one line per patch)
# For each patch: scratch copy of /repo's working tree under /tmp (removed afterwards), apply, run ALL
# property rule sets in one load (storcheck -prop all), print   <patch> <STALE|NOBUILD|OK> detected=<ids>
# Details of each detection go to /tmp/wt/corpus/<name>.out (scratch, for triage only).
V=$(cd "$(dirname "$0")/.." && pwd)
export GOFLAGS=-mod=mod GOPROXY=off GOSUMDB=off GOTOOLCHAIN=local GOWORK=off
mkdir -p /tmp/wt/corpus
one() {
  patch=$(realpath "$1")
  name=$(echo "$patch" | sed 's#^/verif/##; s#^/tmp/wt/##; s#/patch.diff$##; s#[/ ]#_#g')
  tmp=$(mktemp -d /tmp/storcorp.XXXXXX)
  mkdir -p "$tmp/repo"
  rsync -a --exclude .git /repo/ "$tmp/repo/"
  if ! (cd "$tmp/repo" && patch -p1 -s --no-backup-if-mismatch < "$patch" >/dev/null 2>&1); then echo "$patch STALE"; rm -rf "$tmp"; return; fi
  out=$("$V/bin/storcheck" -prop all -repo "$tmp/repo" 2>&1)
  echo "$out" > /tmp/wt/corpus/$name.out
  if echo "$out" | grep -q "^LOAD-ERROR"; then echo "$patch NOBUILD"; rm -rf "$tmp"; return; fi
  det=$(echo "$out" | sed -n 's/^== \(C[0-9]*\): \(DETECTED\|PANIC\).*/\1/p' | tr '\n' ',' | sed 's/,$//')
  echo "$patch OK detected=$det"
  rm -rf "$tmp"
}
if [ "$1" = "--one" ]; then one "$2"; exit 0; fi
printf '%s\n' "$@" | xargs -P 8 -I{} "$0" --one {}
