#!/bin/sh
# usage: triage_benign.sh <suffix> <prop>...   runs the checker on /tmp/wt/out-<prop><suffix>/*/patch.diff and prints the alarms
V=$(cd "$(dirname "$0")/.." && pwd)
suf=$1; shift
for p in "$@"; do
  ls /tmp/wt/out-$p$suf/*/patch.diff >/dev/null 2>&1 || { echo "$p: no output yet"; continue; }
  $V/tools/run_corpus.sh /tmp/wt/out-$p$suf/*/patch.diff | sort | awk '{print $1,$2,$3}' | while read path st det; do
    case "$det" in detected=) ;; *) n=$(echo $path | sed 's#/tmp/wt/##; s#/patch.diff##; s#/#_#g'); echo "== $path $st $det"; grep "violated\|undecided\|PANIC" /tmp/wt/corpus/$n.out | cut -c1-260 | head -4;; esac
  done
done
