#!/bin/sh
# usage: confirm_seed.sh <outdir> <name> <demo-target-dir-in-tree> <test-run-regex> [extra go test flags]
# Confirms a seeded change in a scratch worktree of /repo's HEAD (outside /repo and /verif):
#   1. demo passes on the unmodified tree, 2. patch applies and builds, 3. full suite passes with the patch,
#   4. demo fails with the patch.  Removes the worktree afterwards. Prints CONFIRMED or NOT-CONFIRMED.
set -u
out=$1; name=$2; tdir=$3; run=$4; shift 4
export GOFLAGS=-mod=mod GOPROXY=off GOSUMDB=off GOTOOLCHAIN=local GOWORK=off
wt=$(mktemp -d /tmp/storconfirm.XXXXXX)
log=/tmp/wt/confirm-$name.log
mkdir -p /tmp/wt
cleanup() { git -C /repo worktree remove --force "$wt" >/dev/null 2>&1; rm -rf "$wt"; }
trap cleanup EXIT
rmdir "$wt"; git -C /repo worktree add -q --detach "$wt" HEAD || exit 9
: > "$log"
# copy demo files
find "$out/demo" -type f -name '*.go' | while read f; do cp "$f" "$wt/$tdir/"; done
cd "$wt"
echo "## demo on unmodified tree" >>"$log"
if go test -vet=off -count=1 -run "$run" "$@" ./$tdir/ >>"$log" 2>&1; then base=pass; else base=fail; fi
if ! git apply "$out/patch.diff" 2>>"$log"; then
  if ! patch -p1 -s --no-backup-if-mismatch < "$out/patch.diff" >>"$log" 2>&1; then echo "NOT-CONFIRMED $name: patch does not apply"; exit 1; fi
fi
echo "## demo with patch" >>"$log"
if go test -vet=off -count=1 -run "$run" "$@" ./$tdir/ >>"$log" 2>&1; then mut=pass; else mut=fail; fi
# full suite without the demo files
find "$out/demo" -type f -name '*.go' | while read f; do rm -f "$wt/$tdir/$(basename $f)"; done
echo "## full suite with patch" >>"$log"
if go build ./... >>"$log" 2>&1 && go test -vet=off -count=1 ./... >>"$log" 2>&1; then suite=pass; else suite=fail; fi
if [ $base = pass ] && [ $mut = fail ] && [ $suite = pass ]; then echo "CONFIRMED $name (demo: unmodified=$base patched=$mut; suite with patch=$suite)"; else echo "NOT-CONFIRMED $name (demo: unmodified=$base patched=$mut; suite with patch=$suite) see $log"; fi
