#!/bin/sh
# usage: import_benign.sh <prop> <suffix> <first-number>
# Runs the checker on /tmp/wt/out-<prop><suffix>/{1..5}/patch.diff, confirms each (applies, builds, suite passes) in a
# scratch worktree, and imports the confirmed ones as benign/<prop>-<n>/ (n from <first-number>). Prints detections.
V=$(cd "$(dirname "$0")/.." && pwd)
prop=$1; suf=$2; n=$3
for i in 1 2 3 4 5; do
  d=/tmp/wt/out-$prop$suf/$i
  [ -f $d/patch.diff ] || { echo "missing $d"; continue; }
  res=$($V/tools/confirm_benign.sh $d $prop$suf-$i)
  echo "$res"
  case "$res" in CONFIRMED*) ;; *) continue;; esac
  mkdir -p $V/benign/$prop-$n
  cp $d/patch.diff $V/benign/$prop-$n/patch.diff
  [ -f $d/notes.md ] && cp $d/notes.md $V/benign/$prop-$n/notes.md
  echo "$prop-$n <- $d"
  n=$((n+1))
done
