#!/bin/sh
# usage: process_round.sh <suffix> <round> <prop> <letter>...
# For each /tmp/wt/out-<prop><suffix>/<letter>: run the checker corpus on the patch, confirm the seed in a scratch
# worktree, and import it into seeded/<prop>-<letter> when confirmed. Prints one line per seed.
suf=$1; round=$2; prop=$3; shift 3
V=$(cd "$(dirname "$0")/.." && pwd)
for x in "$@"; do
  d=/tmp/wt/out-$prop$suf/$x
  [ -f $d/patch.diff ] || { echo "$prop-$x: no patch"; continue; }
  det=$($V/tools/run_corpus.sh $d/patch.diff | awk '{print $2,$3}')
  line=$($V/tools/confirm_seed2.sh $d $prop-$x)
  case "$line" in
    CONFIRMED*) ROUND=$round python3 $V/tools/import_seed2.py $prop $x "$line" $d >/dev/null; echo "$prop-$x: $det | confirmed, imported";;
    *) echo "$prop-$x: $det | $line";;
  esac
done
